//! Bounded native search for a failing input, used when a Verus obligation fails (Verus gives no
//! counterexample): random operation sequences on the REAL crate in /repo (real hashbrown), compared
//! step by step with an executable rendering of the contracts' oracle (`evict`, `total`, list equations).
//!
//!   witness search <seed> <budget_ms> <focus>     -> prints a JSON witness and exits 1 if found, else exits 0
//!   witness replay '<json ops>' <hasher>          -> re-runs a witness; exit 1 if it still fails
use lru_mem::{entry_size, HeapSize, InsertError, LruCache, MutateError, TryInsertError};
use std::hash::{BuildHasherDefault, Hasher};
use std::time::{Duration, Instant};

#[derive(Clone, Debug, PartialEq)]
struct Val { heap: usize, id: u32 }
impl HeapSize for Val { fn heap_size(&self) -> usize { self.heap } }

#[derive(Default, Clone)]
struct IdHasher(u64);
impl Hasher for IdHasher {
    fn finish(&self) -> u64 { self.0 }
    fn write(&mut self, b: &[u8]) { for x in b { self.0 = self.0.wrapping_mul(31).wrapping_add(*x as u64); } }
}
#[derive(Default, Clone)]
struct ConstHasher;
impl Hasher for ConstHasher { fn finish(&self) -> u64 { 0 } fn write(&mut self, _b: &[u8]) {} }

struct Rng(u64);
impl Rng {
    fn next(&mut self) -> u64 { self.0 ^= self.0 << 13; self.0 ^= self.0 >> 7; self.0 ^= self.0 << 17; self.0 }
    fn below(&mut self, n: u64) -> u64 { if n == 0 { 0 } else { self.next() % n } }
}

#[derive(Clone, Debug)]
enum Op {
    Insert(u16, usize), TryInsert(u16, usize), Get(u16), GetEntry(u16), Peek(u16), PeekEntry(u16), Contains(u16), Touch(u16),
    Remove(u16), RemoveEntry(u16), RemoveLru, RemoveMru, GetLru, PeekEnds, SetMaxSize(usize), Mutate(u16, usize),
    Reserve(usize), TryReserve(usize), ShrinkTo(usize), ShrinkToFit, Clear, Retain(u16), CloneSwap, Drain(u8, u8), Fill(u16, u16), IterWord(u8, u16, u8),
}
impl Op {
    fn to_json(&self) -> String {
        match self {
            Op::Insert(k, s) => format!("[\"insert\",{},{}]", k, s), Op::TryInsert(k, s) => format!("[\"try_insert\",{},{}]", k, s),
            Op::Get(k) => format!("[\"get\",{}]", k), Op::GetEntry(k) => format!("[\"get_entry\",{}]", k),
            Op::Peek(k) => format!("[\"peek\",{}]", k), Op::PeekEntry(k) => format!("[\"peek_entry\",{}]", k),
            Op::Contains(k) => format!("[\"contains\",{}]", k), Op::Touch(k) => format!("[\"touch\",{}]", k),
            Op::Remove(k) => format!("[\"remove\",{}]", k), Op::RemoveEntry(k) => format!("[\"remove_entry\",{}]", k),
            Op::RemoveLru => "[\"remove_lru\"]".into(), Op::RemoveMru => "[\"remove_mru\"]".into(), Op::GetLru => "[\"get_lru\"]".into(),
            Op::PeekEnds => "[\"peek_ends\"]".into(), Op::SetMaxSize(m) => format!("[\"set_max_size\",{}]", m),
            Op::Mutate(k, s) => format!("[\"mutate\",{},{}]", k, s), Op::Reserve(n) => format!("[\"reserve\",{}]", n),
            Op::TryReserve(n) => format!("[\"try_reserve\",{}]", n), Op::ShrinkTo(n) => format!("[\"shrink_to\",{}]", n),
            Op::ShrinkToFit => "[\"shrink_to_fit\"]".into(), Op::Clear => "[\"clear\"]".into(), Op::Retain(m) => format!("[\"retain\",{}]", m),
            Op::CloneSwap => "[\"clone_swap\"]".into(), Op::Drain(a, b) => format!("[\"drain\",{},{}]", a, b), Op::Fill(a, n) => format!("[\"fill\",{},{}]", a, n),
            Op::IterWord(k, bits, n) => format!("[\"iter_word\",{},{},{}]", k, bits, n),
        }
    }
    fn from_json(s: &str) -> Option<Op> {
        let t = s.trim().trim_start_matches('[').trim_end_matches(']');
        let parts: Vec<&str> = t.split(',').map(|x| x.trim().trim_matches('"')).collect();
        let n = |i: usize| parts.get(i).and_then(|x| x.parse::<u64>().ok()).unwrap_or(0);
        Some(match parts[0] {
            "insert" => Op::Insert(n(1) as u16, n(2) as usize), "try_insert" => Op::TryInsert(n(1) as u16, n(2) as usize),
            "get" => Op::Get(n(1) as u16), "get_entry" => Op::GetEntry(n(1) as u16), "peek" => Op::Peek(n(1) as u16),
            "peek_entry" => Op::PeekEntry(n(1) as u16), "contains" => Op::Contains(n(1) as u16), "touch" => Op::Touch(n(1) as u16),
            "remove" => Op::Remove(n(1) as u16), "remove_entry" => Op::RemoveEntry(n(1) as u16), "remove_lru" => Op::RemoveLru,
            "remove_mru" => Op::RemoveMru, "get_lru" => Op::GetLru, "peek_ends" => Op::PeekEnds, "set_max_size" => Op::SetMaxSize(n(1) as usize),
            "mutate" => Op::Mutate(n(1) as u16, n(2) as usize), "reserve" => Op::Reserve(n(1) as usize), "try_reserve" => Op::TryReserve(n(1) as usize),
            "shrink_to" => Op::ShrinkTo(n(1) as usize), "shrink_to_fit" => Op::ShrinkToFit, "clear" => Op::Clear, "retain" => Op::Retain(n(1) as u16),
            "clone_swap" => Op::CloneSwap, "drain" => Op::Drain(n(1) as u8, n(2) as u8), "fill" => Op::Fill(n(1) as u16, n(2) as u16), "iter_word" => Op::IterWord(n(1) as u8, n(2) as u16, n(3) as u8),
            _ => return None,
        })
    }
}

/// executable oracle: list LRU -> MRU of (key, value, recorded size)
struct Model { list: Vec<(u16, Val, usize)>, max: usize, e0: usize, next_id: u32 }
impl Model {
    fn cur(&self) -> usize { self.list.iter().map(|e| e.2).sum() }
    fn esize(&self, heap: usize) -> usize { self.e0 + heap }
    fn pos(&self, k: u16) -> Option<usize> { self.list.iter().position(|e| e.0 == k) }
    fn evict(&mut self, target: usize) { while self.cur() > target && !self.list.is_empty() { self.list.remove(0); } }
}

struct Fail(String);
macro_rules! check { ($t:expr, $c:expr, $($a:tt)*) => { if !($c) { return Err(Fail(format!("[{}] {}", $t, format!($($a)*)))); } } }

fn run<S: std::hash::BuildHasher + Default + Clone>(ops: &[Op], max0: usize, cap0: usize) -> Result<(), (usize, String)> {
    let e0 = entry_size(&0u16, &Val { heap: 0, id: 0 });
    let mut c: LruCache<u16, Val, S> = LruCache::with_capacity_and_hasher(max0, cap0, S::default());
    let mut m = Model { list: vec![], max: max0, e0, next_id: 1 };
    let mut peak = 0usize;
    let mut requested = cap0;
    for (step, op) in ops.iter().enumerate() {
        // re-synchronise the oracle with the real cache: every step is judged on its own
        m.list = c.iter().take(c.len() + 2).map(|(k, v)| (*k, v.clone(), entry_size(k, v))).collect();
        m.max = c.max_size();
        let ra = apply(&mut c, &mut m, op, &mut peak, &mut requested);
        // the structural clauses (memory bound, accounting, mirror traversal) are judged even when the operation's own
        // contract already failed -- one defect can break several properties at the same step; the clauses that compare
        // with the oracle's list are only judged when the oracle's step completed
        let rc = compare(&c, &m, op, ra.is_ok());
        match (ra, rc) {
            (Ok(()), Ok(())) => {}
            (Err(Fail(a)), Ok(())) => return Err((step, a)),
            (Ok(()), Err(Fail(b))) => return Err((step, b)),
            (Err(Fail(a)), Err(Fail(b))) => {
                let ta = a.trim_start_matches('[').split(']').next().unwrap_or("").to_string();
                let tb = b.trim_start_matches('[').split(']').next().unwrap_or("").to_string();
                let mut tags: Vec<&str> = vec![];
                for x in ta.split(' ').chain(tb.split(' ')) { if !x.is_empty() && !tags.contains(&x) { tags.push(x); } }
                let ma = a.splitn(2, "] ").nth(1).unwrap_or(&a).to_string();
                let mb = b.splitn(2, "] ").nth(1).unwrap_or(&b).to_string();
                return Err((step, format!("[{}] {}; {}", tags.join(" "), ma, mb)));
            }
        }
    }
    Ok(())
}

fn op_class(op: &Op) -> (&'static str, &'static str) {
    // (tags for a wrong set of remaining entries, tags for a wrong order of the right entries)
    match op {
        Op::Insert(..) | Op::Fill(..) | Op::SetMaxSize(..) => ("C03", "C05"),
        Op::Mutate(..) => ("C03 C11", "C05 C11"),
        Op::TryInsert(..) => ("C10 C03", "C05 C10"),
        Op::Retain(..) => ("C15", "C15 C05"),
        Op::Clear | Op::Drain(..) => ("C02 C12", "C12"),
        Op::CloneSwap => ("C14", "C14 C05"),
        Op::Reserve(..) | Op::TryReserve(..) | Op::ShrinkTo(..) | Op::ShrinkToFit => ("C13 C04", "C13 C05"),
        Op::Peek(..) | Op::PeekEntry(..) | Op::Contains(..) | Op::PeekEnds | Op::IterWord(..) => ("C19 C04", "C19 C05"),
        _ => ("C04", "C05"),
    }
}

/// after each operation: the real cache against the oracle's result for THIS operation (the oracle is re-synchronised
/// with the real cache before every operation, so a divergence is attributed to the operation that caused it)
fn compare<S: std::hash::BuildHasher>(c: &LruCache<u16, Val, S>, m: &Model, op: &Op, model_ok: bool) -> Result<(), Fail> {
    let (t_members, t_order) = op_class(op);
    // collect every failing aspect (each with its own property tags) instead of stopping at the first
    let mut fails: Vec<(String, String)> = vec![];
    macro_rules! soft { ($t:expr, $c:expr, $($a:tt)*) => { if !($c) { fails.push(($t.to_string(), format!($($a)*))); } } }
    soft!("C01", c.current_size() <= c.max_size(), "memory bound exceeded: {} > {}", c.current_size(), c.max_size());
    if model_ok { soft!("C01", c.max_size() == m.max, "max_size() = {} expected {}", c.max_size(), m.max); }
    let fwd: Vec<(u16, Val)> = c.iter().take(c.len() + 2).map(|(k, v)| (*k, v.clone())).collect();   // bounded: a broken list may cycle
    let real_sum: usize = fwd.iter().map(|(k, v)| entry_size(k, v)).sum();
    soft!("C02", c.current_size() == real_sum, "current_size() = {} but the sum of entry_size over the entries held is {}", c.current_size(), real_sum);
    soft!("C02 C07", c.len() == fwd.len(), "len() = {} but iteration yields {} entries", c.len(), fwd.len());
    soft!("C02", c.is_empty() == (c.current_size() == 0), "current_size() is 0 exactly when the cache is empty: violated");
    let mut bwd: Vec<(u16, Val)> = c.iter().rev().take(c.len() + 2).map(|(k, v)| (*k, v.clone())).collect();
    bwd.reverse();
    soft!("C07 C12", bwd == fwd, "reverse iteration does not mirror forward iteration");
    soft!("C13", c.capacity() >= c.len(), "capacity() {} < len() {}", c.capacity(), c.len());
    for e in &fwd { soft!("C07 C04", c.peek(&e.0) == Some(&e.1), "peek({}) does not find the entry that iteration yields", e.0); }
    if !model_ok {
        if fails.is_empty() { return Ok(()); }
        let mut tags: Vec<&str> = vec![];
        for (t, _) in &fails { for x in t.split(' ') { if !tags.contains(&x) { tags.push(x); } } }
        let msgs: Vec<String> = fails.iter().map(|(t, m)| format!("({}) {}", t, m)).collect();
        return Err(Fail(format!("[{}] {}", tags.join(" "), msgs.join("; "))));
    }
    let exp: Vec<(u16, Val)> = m.list.iter().map(|e| (e.0, e.1.clone())).collect();
    let mut ks_real: Vec<u16> = fwd.iter().map(|e| e.0).collect(); ks_real.sort();
    let mut ks_exp: Vec<u16> = exp.iter().map(|e| e.0).collect(); ks_exp.sort();
    soft!(t_members, ks_real == ks_exp, "after {}: the cache holds keys {:?}, the contracts give {:?}", op.to_json(), ks_real, ks_exp);
    // order and values are judged on the keys both sides hold, so that a wrong set of entries (reported above) is not
    // reported a second time as a wrong order or a wrong value
    let common_real: Vec<(u16, Val)> = fwd.iter().filter(|e| ks_exp.contains(&e.0)).cloned().collect();
    let common_exp: Vec<(u16, Val)> = exp.iter().filter(|e| ks_real.contains(&e.0)).cloned().collect();
    soft!(t_order, common_real.iter().map(|e| e.0).collect::<Vec<_>>() == common_exp.iter().map(|e| e.0).collect::<Vec<_>>(),
           "after {}: recency order {:?} differs from the order of last access {:?}", op.to_json(), common_real.iter().map(|e| e.0).collect::<Vec<_>>(), common_exp.iter().map(|e| e.0).collect::<Vec<_>>());
    let mut vr = common_real.clone(); vr.sort_by_key(|e| e.0);
    let mut ve = common_exp.clone(); ve.sort_by_key(|e| e.0);
    soft!(if matches!(op, Op::Mutate(..)) { "C11" } else { "C04" }, vr == ve, "after {}: a stored value differs from the value most recently stored for its key", op.to_json());
    if fails.is_empty() { return Ok(()); }
    let mut tags: Vec<&str> = vec![];
    for (t, _) in &fails { for x in t.split(' ') { if !tags.contains(&x) { tags.push(x); } } }
    let msgs: Vec<String> = fails.iter().map(|(t, m)| format!("({}) {}", t, m)).collect();
    Err(Fail(format!("[{}] {}", tags.join(" "), msgs.join("; "))))
}

fn apply<S: std::hash::BuildHasher + Clone>(c: &mut LruCache<u16, Val, S>, m: &mut Model, op: &Op, peak: &mut usize, requested: &mut usize) -> Result<(), Fail> {
    let cap_before = c.capacity();
    let len_before = c.len();
    match op.clone() {
        Op::Insert(k, heap) => {
            let id = m.next_id; m.next_id += 1;
            let v = Val { heap, id };
            let es = m.esize(heap);
            let r = c.insert(k, v.clone());
            if es > m.max {
                match r { Err(InsertError::EntryTooLarge { key, value, entry_size, max_size }) =>
                    check!("C10", key == k && value == v && entry_size == es && max_size == m.max, "insert: EntryTooLarge carries wrong data"),
                    _ => return Err(Fail(format!("[C10] insert({}, heap {}): entry_size {} > max_size {} but no EntryTooLarge", k, heap, es, m.max))) }
                check!("C10 C04", c.len() == len_before && m.pos(k).map(|i| c.peek(&k) == Some(&m.list[i].1)).unwrap_or(!c.contains(&k)), "a rejected insert({}) changed the contents of the cache", k);
            } else {
                let old = m.pos(k).map(|i| m.list.remove(i).1);
                let target = m.max - es;
                m.evict(target);
                m.list.push((k, v, es));
                match r { Ok(prev) => check!("C04", prev == old, "insert({}): returned {:?}, expected the replaced value {:?}", k, prev, old),
                    Err(_) => return Err(Fail(format!("[C10] insert({}) failed although entry_size {} <= max_size {}", k, es, m.max))) }
            }
        }
        Op::TryInsert(k, heap) => {
            let id = m.next_id; m.next_id += 1;
            let v = Val { heap, id };
            let es = m.esize(heap);
            let free = m.max - m.cur();
            let r = c.try_insert(k, v.clone());
            if es > m.max {
                check!("C10", matches!(r, Err(TryInsertError::EntryTooLarge { entry_size, max_size, .. }) if entry_size == es && max_size == m.max), "try_insert: expected EntryTooLarge({}, {}), got {:?}", es, m.max, r);
            } else if es > free {
                check!("C10", matches!(r, Err(TryInsertError::WouldEjectLru { entry_size, free_memory, .. }) if entry_size == es && free_memory == free), "try_insert: expected WouldEjectLru({}, {}), got {:?}", es, free, r);
            } else if m.pos(k).is_some() {
                check!("C10", matches!(r, Err(TryInsertError::OccupiedEntry { .. })), "try_insert: expected OccupiedEntry, got {:?}", r);
            } else {
                check!("C10", r.is_ok(), "try_insert: expected Ok, got {:?}", r);
                m.list.push((k, v.clone(), es));
            }
            if let Err(e) = r { check!("C10 C06", e.key() == &k && e.value() == &v, "try_insert error does not return the very pair"); }
        }
        Op::Get(k) | Op::GetEntry(k) | Op::Touch(k) => {
            let exp = m.pos(k).map(|i| { let e = m.list.remove(i); m.list.push(e.clone()); e.1 });
            match op { Op::Get(_) => { let r = c.get(&k).cloned(); check!("C04", r == exp, "get({}) = {:?}, expected {:?}", k, r, exp); }
                Op::GetEntry(_) => { let r = c.get_entry(&k).map(|(a, b)| (*a, b.clone())); check!("C04", r == exp.clone().map(|v| (k, v)), "get_entry({}) wrong", k); }
                _ => c.touch(&k) }
        }
        Op::Peek(k) => { let exp = m.pos(k).map(|i| m.list[i].1.clone()); check!("C04", c.peek(&k).cloned() == exp, "peek({}) wrong", k); }
        Op::PeekEntry(k) => { let exp = m.pos(k).map(|i| (k, m.list[i].1.clone())); check!("C04", c.peek_entry(&k).map(|(a, b)| (*a, b.clone())) == exp, "peek_entry({}) wrong", k); }
        Op::Contains(k) => check!("C04", c.contains(&k) == m.pos(k).is_some(), "contains({}) wrong", k),
        Op::Remove(k) => { let exp = m.pos(k).map(|i| m.list.remove(i).1); let r = c.remove(&k); check!("C04 C06", r == exp, "remove({}) = {:?}, expected {:?}", k, r, exp); }
        Op::RemoveEntry(k) => { let exp = m.pos(k).map(|i| { let e = m.list.remove(i); (e.0, e.1) }); check!("C04 C06", c.remove_entry(&k) == exp, "remove_entry({}) wrong", k); }
        Op::RemoveLru => { let exp = if m.list.is_empty() { None } else { let e = m.list.remove(0); Some((e.0, e.1)) }; check!("C05 C04", c.remove_lru() == exp, "remove_lru wrong"); }
        Op::RemoveMru => { let exp = m.list.pop().map(|e| (e.0, e.1)); check!("C05 C04", c.remove_mru() == exp, "remove_mru wrong"); }
        Op::GetLru => { let exp = if m.list.is_empty() { None } else { let e = m.list.remove(0); m.list.push(e.clone()); Some((e.0, e.1)) };
            check!("C05 C04", c.get_lru().map(|(a, b)| (*a, b.clone())) == exp, "get_lru wrong"); }
        Op::PeekEnds => {
            check!("C05", c.peek_lru().map(|(a, b)| (*a, b.clone())) == m.list.first().map(|e| (e.0, e.1.clone())), "peek_lru wrong");
            check!("C05", c.peek_mru().map(|(a, b)| (*a, b.clone())) == m.list.last().map(|e| (e.0, e.1.clone())), "peek_mru wrong");
        }
        Op::SetMaxSize(x) => { c.set_max_size(x); m.evict(x); m.max = x; }
        Op::Mutate(k, newheap) => {
            let mut called = false;
            let r = c.mutate(&k, |v| { called = true; v.heap = newheap; 77u8 });
            match m.pos(k) {
                None => { check!("C11", !called, "mutate called the closure for an absent key"); check!("C11", matches!(r, Ok(None)), "mutate on an absent key must return Ok(None)"); }
                Some(i) => {
                    check!("C11", called, "mutate did not call the closure for a present key");
                    let mut e = m.list.remove(i);
                    let old = e.2;
                    e.1.heap = newheap;
                    e.2 = m.esize(newheap);
                    if e.2 > m.max {
                        match r { Err(MutateError::EntryTooLarge { key, value, old_entry_size, new_entry_size, max_size }) =>
                            check!("C11", key == k && value == e.1 && old_entry_size == old && new_entry_size == e.2 && max_size == m.max, "mutate: EntryTooLarge carries wrong data"),
                            _ => return Err(Fail(format!("[C11] mutate({}): grown entry {} > max_size {} but no EntryTooLarge", k, e.2, m.max))) }
                    } else {
                        m.list.push(e);
                        let mx = m.max;
                        m.evict(mx);
                        check!("C11", matches!(r, Ok(Some(77))), "mutate must forward the closure's result");
                    }
                }
            }
        }
        Op::Reserve(n) => { c.reserve(n); check!("C13", c.capacity() >= len_before + n, "reserve({}): capacity {} < len + additional", n, c.capacity()); *requested = (*requested).max(len_before + n); }
        Op::TryReserve(n) => { let r = c.try_reserve(n); if r.is_ok() { check!("C13", c.capacity() >= len_before + n, "try_reserve: capacity too small"); *requested = (*requested).max(len_before + n); } else { check!("C13", c.capacity() == cap_before, "failed try_reserve changed the capacity"); } }
        Op::ShrinkTo(n) => { c.shrink_to(n); check!("C13", c.capacity() <= cap_before, "shrink_to({}) raised the capacity from {} to {}", n, cap_before, c.capacity());
            check!("C13", c.capacity() >= len_before.max(n) || c.capacity() == cap_before, "shrink_to({}) left capacity {} below max(len, min)", n, c.capacity()); }
        Op::ShrinkToFit => { c.shrink_to_fit(); check!("C13", c.capacity() <= cap_before, "shrink_to_fit raised the capacity from {} to {}", cap_before, c.capacity()); check!("C13", c.capacity() >= len_before, "shrink_to_fit below len"); }
        Op::Clear => { c.clear(); m.list.clear(); }
        Op::Retain(mask) => {
            let mut seen = vec![];
            c.retain(|k, v| { seen.push((*k, v.clone())); (mask >> (*k % 16)) & 1 == 1 });
            let exp: Vec<(u16, Val)> = m.list.iter().map(|e| (e.0, e.1.clone())).collect();
            check!("C15", seen == exp, "retain did not visit each entry once in LRU order");
            m.list.retain(|e| (mask >> (e.0 % 16)) & 1 == 1);
        }
        Op::CloneSwap => { let d = c.clone(); check!("C14", d.capacity() >= c.capacity(), "clone has a smaller capacity"); *c = d; }
        Op::Drain(a, b) => {
            let mut exp: Vec<(u16, Val)> = m.list.iter().map(|e| (e.0, e.1.clone())).collect();
            { let mut d = c.drain();
              for _ in 0..a { let x = d.next(); let y = if exp.is_empty() { None } else { Some(exp.remove(0)) }; check!("C12", x == y, "drain.next() wrong"); }
              for _ in 0..b { let x = d.next_back(); let y = exp.pop(); check!("C12", x == y, "drain.next_back() wrong"); } }
            m.list.clear();
        }
        Op::IterWord(kind, bits, n) => {
            // any word of next / next_back: front yields the order, back its reverse, each entry once, then None for ever
            let exp: Vec<(u16, Val)> = m.list.iter().map(|e| (e.0, e.1.clone())).collect();
            let (mut lo, mut hi) = (0usize, exp.len());
            macro_rules! word { ($it:expr, $proj:expr) => {{
                let mut it = $it;
                for s in 0..n {
                    let front = (bits >> s) & 1 == 0;
                    let got = if front { it.next() } else { it.next_back() };
                    let want = if lo < hi { if front { lo += 1; Some(exp[lo - 1].clone()) } else { hi -= 1; Some(exp[hi].clone()) } } else { None };
                    check!("C12", got.map($proj) == want.clone().map(|w| $proj((&w.0, &w.1))), "iterator kind {} step {} ({}) yielded the wrong item", kind, s, if front { "next" } else { "next_back" });
                }
            }}; }
            match kind % 6 {
                0 => word!(c.iter(), |(k, v): (&u16, &Val)| (*k, v.id)),
                1 => word!(c.keys().map(|k| (k, &Val { heap: 0, id: 0 })).map(|(k, _)| (k, k)), |(k, _): (&u16, _)| (*k, 0u32)),
                2 => word!(c.values().map(|v| (&0u16, v)), |(_, v): (&u16, &Val)| (0u16, v.id)),
                // owning iterators run on a clone (C14 makes the clone equal to the source)
                3 => { let d = c.clone(); let mut it = d.into_iter();
                    for s in 0..n { let front = (bits >> s) & 1 == 0; let got = if front { it.next() } else { it.next_back() };
                        let want = if lo < hi { if front { lo += 1; Some(exp[lo - 1].clone()) } else { hi -= 1; Some(exp[hi].clone()) } } else { None };
                        check!("C12", got == want, "into_iter step {} ({}) yielded the wrong item", s, if front { "next" } else { "next_back" }); } }
                4 => { let d = c.clone(); let mut it = d.into_keys();
                    for s in 0..n { let front = (bits >> s) & 1 == 0; let got = if front { it.next() } else { it.next_back() };
                        let want = if lo < hi { if front { lo += 1; Some(exp[lo - 1].0) } else { hi -= 1; Some(exp[hi].0) } } else { None };
                        check!("C12", got == want, "into_keys step {} ({}) yielded the wrong item", s, if front { "next" } else { "next_back" }); } }
                _ => { let d = c.clone(); let mut it = d.into_values();
                    for s in 0..n { let front = (bits >> s) & 1 == 0; let got = if front { it.next() } else { it.next_back() };
                        let want = if lo < hi { if front { lo += 1; Some(exp[lo - 1].1.clone()) } else { hi -= 1; Some(exp[hi].1.clone()) } } else { None };
                        check!("C12", got == want, "into_values step {} ({}) yielded the wrong item", s, if front { "next" } else { "next_back" }); } }
            }
        }
        Op::Fill(start, n) => {
            for k in start..start.saturating_add(n) {
                let id = m.next_id; m.next_id += 1;
                let v = Val { heap: 0, id };
                let es = m.esize(0);
                if es <= m.max { let old = m.pos(k).map(|i| m.list.remove(i).1); let t = m.max - es; m.evict(t); m.list.push((k, v.clone(), es)); let r = c.insert(k, v); check!("C04", r == Ok(old), "fill: insert wrong"); }
            }
        }
    }
    // growth bound (C13): capacity stays below max(4 x peak len, 16) or what was explicitly requested
    *peak = (*peak).max(c.len());
    if !matches!(op, Op::CloneSwap) {
        let bound = (4 * *peak).max(16).max(cap_for_upper(*requested));
        check!("C13", c.capacity() < bound.max(1) || c.capacity() <= cap_before, "capacity {} exceeds max(4 x peak len {}, 16) and what was requested ({})", c.capacity(), *peak, *requested);
    }
    Ok(())
}
fn cap_for_upper(n: usize) -> usize { (2 * n).max(8) }

fn gen(rng: &mut Rng, focus: &str, e0: usize) -> (Vec<Op>, usize, usize, bool) {
    let nkeys = 1 + rng.below(6) as u16;
    let maxent = 1 + rng.below(5) as usize;
    let max0 = if rng.below(8) == 0 { usize::MAX } else { maxent * (e0 + 4) + rng.below(8) as usize };
    let cap0 = [0usize, 0, 1, 3, 7, 28][rng.below(6) as usize];
    let n = 1 + rng.below(14) as usize;
    let mut ops = vec![];
    if rng.below(4) == 0 && max0 == usize::MAX { ops.push(Op::Fill(100, rng.below(40) as u16)); }
    for _ in 0..n {
        let k = rng.below(nkeys as u64) as u16;
        let heap = rng.below(12) as usize;
        let w = rng.below(100);
        let f = |names: &[&str]| names.iter().any(|x| focus.contains(x));
        let op = if f(&["Iter", "Keys", "Values", "next", "Drain", "Into"]) && w < 40 { Op::IterWord(rng.below(6) as u8, rng.next() as u16, rng.below(9) as u8)
        } else if f(&["shrink", "reserve", "capacity", "reallocate", "insert_unchecked"]) && w < 35 {
            match rng.below(5) { 0 => Op::ShrinkToFit, 1 => Op::ShrinkTo(rng.below(30) as usize), 2 => Op::Reserve(rng.below(30) as usize), 3 => Op::TryReserve(rng.below(30) as usize), _ => Op::Remove(100 + rng.below(40) as u16) }
        } else if f(&["mutate"]) && w < 35 { Op::Mutate(k, rng.below(40) as usize)
        } else if f(&["try_insert"]) && w < 35 { Op::TryInsert(k, heap)
        } else if f(&["set_max_size", "eject"]) && w < 30 { Op::SetMaxSize(rng.below((4 * (e0 + 8)) as u64) as usize)
        } else {
            match rng.below(26) {
                0..=4 => Op::Insert(k, heap), 5 | 6 => Op::TryInsert(k, heap), 7 => Op::Get(k), 8 => Op::GetEntry(k), 9 => Op::Peek(k), 10 => Op::PeekEntry(k),
                11 => Op::Contains(k), 12 => Op::Touch(k), 13 => Op::Remove(k), 14 => Op::RemoveEntry(k), 15 => Op::RemoveLru, 16 => Op::RemoveMru,
                17 => Op::GetLru, 18 => Op::PeekEnds, 19 => Op::SetMaxSize(rng.below((5 * (e0 + 8)) as u64) as usize), 20 | 21 => Op::Mutate(k, rng.below(40) as usize),
                22 => match rng.below(4) { 0 => Op::Reserve(rng.below(10) as usize), 1 => Op::TryReserve(rng.below(10) as usize), 2 => Op::ShrinkTo(rng.below(10) as usize), _ => Op::ShrinkToFit },
                23 => if rng.below(2) == 0 { Op::Retain(rng.next() as u16) } else { Op::IterWord(rng.below(6) as u8, rng.next() as u16, rng.below(9) as u8) }, 24 => if rng.below(2) == 0 { Op::CloneSwap } else { Op::Clear }, _ => Op::Drain(rng.below(3) as u8, rng.below(3) as u8),
            }
        };
        ops.push(op);
    }
    (ops, max0, cap0, rng.below(3) == 0)
}

fn run_any(ops: &[Op], max0: usize, cap0: usize, constant: bool) -> Result<(), (usize, String)> {
    let r = std::panic::catch_unwind(|| {
        if constant { run::<BuildHasherDefault<ConstHasher>>(ops, max0, cap0) } else { run::<BuildHasherDefault<IdHasher>>(ops, max0, cap0) }
    });
    match r { Ok(x) => x, Err(_) => Err((ops.len(), "the real crate panicked".into())) }
}

fn print_witness(ops: &[Op], max0: usize, cap0: usize, constant: bool, step: usize, msg: &str) {
    let js: Vec<String> = ops.iter().map(|o| o.to_json()).collect();
    println!("{{\"found\": true, \"max_size\": {}, \"capacity\": {}, \"hasher\": \"{}\", \"ops\": [{}], \"failing_step\": {}, \"message\": {:?}}}",
             max0, cap0, if constant { "constant" } else { "identity" }, js.join(","), step, msg);
}

fn main() {
    std::panic::set_hook(Box::new(|_| {}));
    let args: Vec<String> = std::env::args().collect();
    if args.len() >= 2 && args[1] == "replay" {
        // witness replay <max_size> <capacity> <hasher> <op> <op> ...
        let max0: usize = args[2].parse().unwrap();
        let cap0: usize = args[3].parse().unwrap();
        let constant = args[4] == "constant";
        let ops: Vec<Op> = args[5..].iter().filter_map(|s| Op::from_json(s)).collect();
        match run_any(&ops, max0, cap0, constant) {
            Ok(()) => { println!("replay: the real crate agrees with the contracts on this input (does not fail on this tree)"); std::process::exit(0) }
            Err((step, msg)) => { println!("replay: FAILS at step {} ({}): {}", step, ops.get(step).map(|o| o.to_json()).unwrap_or_default(), msg); std::process::exit(1) }
        }
    }
    let seed: u64 = args.get(2).and_then(|s| s.parse().ok()).unwrap_or(1);
    let budget: u64 = args.get(3).and_then(|s| s.parse().ok()).unwrap_or(3000);
    let focus = args.get(4).cloned().unwrap_or_default();
    // only failures that speak about this property count ("" = any)
    let prop = args.get(5).cloned().unwrap_or_default();
    let relevant = |msg: &str| -> bool { prop.is_empty() || msg.split(']').next().map(|t| t.trim_start_matches('[').split(' ').any(|x| x == prop)).unwrap_or(false) };
    if matches!(prop.as_str(), "C06" | "C16" | "C20") {
        // scenarios with their own instrumented key/value types (drop counters, hash counters, injected panics)
        match extra::search(&prop, seed, budget) {
            Some(msg) => { println!("{{\"found\": true, \"scenario\": \"extra::{}\", \"seed\": {}, \"ops\": [], \"max_size\": 0, \"capacity\": 0, \"hasher\": \"identity\", \"message\": {:?}}}", prop, seed, msg); std::process::exit(1); }
            None => { println!("{{\"found\": false, \"scenario\": \"extra::{}\"}}", prop); std::process::exit(0); }
        }
    }
    if matches!(prop.as_str(), "C19" | "C14") {
        // `&self` operations under injected panics first (a quarter of the budget), then the ordinary operation sequences
        if let Some(msg) = extra::search(&prop, seed, budget / 4) {
            println!("{{\"found\": true, \"scenario\": \"extra::{}\", \"seed\": {}, \"ops\": [], \"max_size\": 0, \"capacity\": 0, \"hasher\": \"identity\", \"message\": {:?}}}", prop, seed, msg); std::process::exit(1);
        }
    }
    let e0 = entry_size(&0u16, &Val { heap: 0, id: 0 });
    let mut rng = Rng(seed.wrapping_mul(0x9E3779B97F4A7C15) | 1);
    let t0 = Instant::now();
    let mut tried = 0u64;
    // targeted scenarios first (the shapes behind earlier findings), then random sequences
    let targeted: Vec<(Vec<Op>, usize, usize, bool)> = vec![
        (vec![Op::Fill(0, 27), Op::Remove(0), Op::ShrinkToFit], usize::MAX, 28, true),
        (vec![Op::Fill(0, 27), Op::Remove(0), Op::ShrinkTo(3)], usize::MAX, 28, false),
    ];
    for (ops, max0, cap0, constant) in targeted {
        tried += 1;
        if let Err((step, msg)) = run_any(&ops, max0, cap0, constant) { if relevant(&msg) { print_witness(&ops[..=step.min(ops.len() - 1)], max0, cap0, constant, step, &msg); std::process::exit(1); } }
    }
    while t0.elapsed() < Duration::from_millis(budget) {
        let (ops, max0, cap0, constant) = gen(&mut rng, &focus, e0);
        tried += 1;
        if let Err((step, msg)) = run_any(&ops, max0, cap0, constant) {
            if !relevant(&msg) { continue; }
            // shrink: drop operations that are not needed
            let mut cur: Vec<Op> = ops[..=step.min(ops.len() - 1)].to_vec();
            let mut i = 0;
            while i < cur.len() {
                let mut t = cur.clone(); t.remove(i);
                if !t.is_empty() && matches!(run_any(&t, max0, cap0, constant), Err((_, ref m2)) if relevant(m2)) { cur = t; } else { i += 1; }
            }
            let (s2, m2) = match run_any(&cur, max0, cap0, constant) { Err(x) => x, Ok(()) => (step, msg.clone()) };
            print_witness(&cur, max0, cap0, constant, s2, &m2);
            std::process::exit(1);
        }
    }
    println!("{{\"found\": false, \"sequences_tried\": {}}}", tried);
}

// =====================================================================================================================
// Extra bounded scenarios for properties the operation/oracle search above cannot observe: ownership (C06),
// panics in user code (C16), hashing work (C20).  Same role: bounded native stand-in when the verifier is undecided.
// =====================================================================================================================
mod extra {
    use super::Rng;
    use lru_mem::{HeapSize, LruCache};
    use std::cell::{Cell, RefCell};
    use std::collections::HashMap;
    use std::hash::{BuildHasherDefault, Hash, Hasher};
    use std::panic::{catch_unwind, AssertUnwindSafe};

    thread_local! {
        static DROPS: RefCell<HashMap<u32, u32>> = RefCell::new(HashMap::new());
        static HASHES: Cell<u32> = Cell::new(0);
        static PANIC_AT: Cell<i64> = Cell::new(-1);
    }
    #[derive(Debug)]
    pub struct DVal { id: u32, heap: usize }
    impl Drop for DVal { fn drop(&mut self) { DROPS.with(|d| *d.borrow_mut().entry(self.id).or_insert(0) += 1); } }
    impl HeapSize for DVal { fn heap_size(&self) -> usize { self.heap } }
    impl Clone for DVal { fn clone(&self) -> DVal { DVal { id: self.id + 1_000_000, heap: self.heap } } }

    #[derive(Debug, Clone)]
    pub struct CKey(u16);
    impl HeapSize for CKey { fn heap_size(&self) -> usize { 0 } }
    impl PartialEq for CKey { fn eq(&self, o: &CKey) -> bool { self.0 == o.0 } }
    impl Eq for CKey {}
    impl Hash for CKey {
        fn hash<H: Hasher>(&self, h: &mut H) {
            let n = HASHES.with(|c| { c.set(c.get() + 1); c.get() });
            if PANIC_AT.with(|p| p.get()) == n as i64 { PANIC_AT.with(|p| p.set(-1)); panic!("injected Hash panic"); }
            h.write_u16(self.0)
        }
    }
    #[derive(Default, Clone)]
    pub struct H16(u64);
    impl Hasher for H16 { fn finish(&self) -> u64 { self.0 } fn write(&mut self, b: &[u8]) { for x in b { self.0 = self.0 * 31 + *x as u64; } } }
    type BH = BuildHasherDefault<H16>;

    /// C06: every value moved into the cache is dropped exactly once, or handed back exactly once (and then dropped by us)
    pub fn c06(rng: &mut Rng) -> Result<(), String> {
        DROPS.with(|d| d.borrow_mut().clear());
        let e0 = lru_mem::entry_size(&0u16, &DVal { id: 0, heap: 0 });
        DROPS.with(|d| d.borrow_mut().clear());
        let mut created: Vec<u32> = vec![];
        let mut log = vec![];
        {
            let max = (1 + rng.below(4) as usize) * (e0 + 4);
            let mut c: LruCache<u16, DVal, BH> = LruCache::with_capacity_and_hasher(max, rng.below(4) as usize, BH::default());
            let mut next = 1u32;
            for _ in 0..(1 + rng.below(14)) {
                let k = rng.below(5) as u16;
                let op = rng.below(14);
                log.push(format!("{}:{}", op, k));
                match op {
                    0..=3 => { created.push(next); let _ = c.insert(k, DVal { id: next, heap: rng.below(6) as usize }); next += 1; }
                    4 => { created.push(next); let _ = c.try_insert(k, DVal { id: next, heap: rng.below(6) as usize }); next += 1; }
                    5 => { let _ = c.remove(&k); }
                    6 => { let _ = c.remove_lru(); }
                    7 => { let _ = c.remove_mru(); }
                    8 => { let g = rng.below(40) as usize; let _ = c.mutate(&k, |v| v.heap = g); }
                    9 => { c.set_max_size(rng.below((4 * (e0 + 6)) as u64) as usize); }
                    10 => { let m = rng.next() as u16; c.retain(|k, _| (m >> (k % 16)) & 1 == 1); }
                    11 => { c.clear(); }
                    12 => { let mut d = c.drain(); if rng.below(2) == 0 { let _ = d.next(); } if rng.below(2) == 0 { let _ = d.next_back(); } }
                    _ => { if rng.below(2) == 0 { c.reserve(rng.below(8) as usize); } else { c.shrink_to_fit(); } }
                }
            }
            if rng.below(3) == 0 {
                let mut it = c.into_iter();
                if rng.below(2) == 0 { let _ = it.next_back(); }
                if rng.below(2) == 0 { let _ = it.next(); }
            }
        }
        let bad: Vec<(u32, u32)> = created.iter().map(|id| (*id, DROPS.with(|d| *d.borrow().get(id).unwrap_or(&0)))).filter(|(_, n)| *n != 1).collect();
        if bad.is_empty() { Ok(()) } else { Err(format!("[C06] values (id, number of drops) {:?} were not dropped exactly once; operations (op:key) {:?}", bad, log)) }
    }

    fn coherent(c: &LruCache<CKey, u32, BH>) -> Result<(), String> {
        let fwd: Vec<u16> = c.iter().map(|(k, _)| k.0).collect();
        let mut bwd: Vec<u16> = c.iter().rev().map(|(k, _)| k.0).collect();
        bwd.reverse();
        if fwd.len() != c.len() { return Err(format!("len() = {} but traversal yields {} entries", c.len(), fwd.len())); }
        if fwd != bwd { return Err("forward and reverse traversal do not mirror".into()); }
        for k in &fwd { if !c.contains(&CKey(*k)) { return Err(format!("traversed key {} is not found by a lookup", k)); } }
        let sum: usize = c.iter().map(|(k, v)| lru_mem::entry_size(k, v)).sum();
        if sum != c.current_size() { return Err(format!("current_size() = {} but the remaining entries sum to {}", c.current_size(), sum)); }
        Ok(())
    }

    /// C16: a Hash panic injected at the n-th hash of one operation; afterwards the cache must be coherent and usable
    pub fn c16(rng: &mut Rng) -> Result<(), String> {
        let n = 1 + rng.below(6) as u16;
        let cap = [0usize, n as usize, 28][rng.below(3) as usize];
        let mut c: LruCache<CKey, u32, BH> = LruCache::with_capacity_and_hasher(usize::MAX, cap, BH::default());
        PANIC_AT.with(|p| p.set(-1));
        for k in 0..n { c.insert(CKey(k), k as u32).unwrap(); }
        let op = rng.below(8);
        let at = 1 + rng.below(n as u64 + 2) as i64;
        HASHES.with(|h| h.set(0));
        PANIC_AT.with(|p| p.set(at));
        let k = rng.below(n as u64 + 1) as u16;
        let r = catch_unwind(AssertUnwindSafe(|| match op {
            0 => c.reserve(100),
            1 => c.shrink_to_fit(),
            2 => { let _ = c.insert(CKey(100 + k), 7); }
            3 => { let _ = c.remove(&CKey(k)); }
            4 => { let _ = c.get(&CKey(k)); }
            5 => { let d = c.clone(); drop(d); }
            6 => { c.set_max_size(lru_mem::entry_size(&CKey(0), &0u32)); }
            _ => { let _ = c.mutate(&CKey(k), |v| *v += 1); }
        }));
        PANIC_AT.with(|p| p.set(-1));
        if r.is_ok() { return Ok(()); }       // the armed call was not reached: nothing to judge
        coherent(&c).map_err(|m| format!("[C16] after a Hash panic at hash #{} inside operation {} (n = {}, capacity {}): {}", at, op, n, cap, m))?;
        let _ = c.insert(CKey(500), 1);
        let _ = c.remove(&CKey(0));
        coherent(&c).map_err(|m| format!("[C16] using the cache after a Hash panic (hash #{}, operation {}): {}", at, op, m))
    }

    /// C19 / C14 (with C16's injected panics): an operation through `&LruCache` whose user code panics half way must
    /// leave the cache it was called on exactly as it was (clone's source in particular)
    pub fn c19(rng: &mut Rng) -> Result<(), String> {
        let n = 1 + rng.below(6) as u16;
        let cap = [0usize, n as usize, 28][rng.below(3) as usize];
        let mut c: LruCache<CKey, u32, BH> = LruCache::with_capacity_and_hasher(usize::MAX, cap, BH::default());
        PANIC_AT.with(|p| p.set(-1));
        for k in 0..n { c.insert(CKey(k), k as u32).unwrap(); }
        for _ in 0..rng.below(4) { let _ = c.get(&CKey(rng.below(n as u64) as u16)); }
        let snap = |c: &LruCache<CKey, u32, BH>| -> (Vec<(u16, u32)>, Vec<u16>, usize, usize, usize, usize) {
            (c.iter().take(c.len() + 2).map(|(k, v)| (k.0, *v)).collect(), c.keys().rev().take(c.len() + 2).map(|k| k.0).collect(), c.len(), c.current_size(), c.max_size(), c.capacity())
        };
        let before = snap(&c);
        let op = rng.below(5);
        let at = 1 + rng.below(n as u64 + 1) as i64;
        let k = rng.below(n as u64 + 1) as u16;
        HASHES.with(|h| h.set(0));
        PANIC_AT.with(|p| p.set(at));
        let r = catch_unwind(AssertUnwindSafe(|| match op {
            0 | 1 => { let d = c.clone(); drop(d); }
            2 => { let _ = c.peek(&CKey(k)); }
            3 => { let _ = c.contains(&CKey(k)); }
            _ => { let _ = c.peek_entry(&CKey(k)); }
        }));
        PANIC_AT.with(|p| p.set(-1));
        let after = snap(&c);
        if before != after {
            return Err(format!("[C19 C14 C16] a `&self` operation ({}) changed the cache it was called on{}: before {:?}, after {:?} (n = {}, capacity {}, Hash panic armed at hash #{})",
                ["clone", "clone", "peek", "contains", "peek_entry"][op as usize], if r.is_err() { " while unwinding from a Hash panic" } else { "" }, before, after, n, cap, at));
        }
        Ok(())
    }

    /// C20: at most two key hashes per operation plus one per departing entry (plus each held entry once for a rebuild)
    pub fn c20(rng: &mut Rng) -> Result<(), String> {
        let e0 = lru_mem::entry_size(&CKey(0), &0u32);
        let n = rng.below(20) as u16;
        let mut c: LruCache<CKey, u32, BH> = LruCache::with_capacity_and_hasher(usize::MAX, [0usize, 3, 28][rng.below(3) as usize], BH::default());
        PANIC_AT.with(|p| p.set(-1));
        for k in 0..n { c.insert(CKey(k), 0).unwrap(); }
        for _ in 0..6 {
            let (len0, cap0) = (c.len(), c.capacity());
            HASHES.with(|h| h.set(0));
            let k = rng.below(n as u64 + 2) as u16;
            let op = rng.below(16);
            let mut rebuild_allowed = false;
            let mut zero = false;
            match op {
                0 => { let _ = c.insert(CKey(k), 1); }
                1 => { let _ = c.try_insert(CKey(k), 1); }
                2 => { let _ = c.get(&CKey(k)); }
                3 => { let _ = c.peek(&CKey(k)); }
                4 => { c.touch(&CKey(k)); }
                5 => { let _ = c.remove(&CKey(k)); }
                6 => { let _ = c.remove_lru(); }
                7 => { let _ = c.mutate(&CKey(k), |v| *v += 1); }
                8 => { c.set_max_size(rng.below(1 + len0 as u64) as usize * e0); }
                9 => { let _ = c.contains(&CKey(k)); }
                10 => { let _ = c.peek_lru(); let _ = c.peek_mru(); zero = true; }
                11 => { let _ = c.iter().count(); let _ = c.keys().rev().count(); zero = true; }
                12 => { c.reserve(rng.below(40) as usize); rebuild_allowed = true; }
                13 => { c.shrink_to(rng.below(10) as usize); rebuild_allowed = true; }
                14 => { let d = c.clone(); std::mem::forget(d); rebuild_allowed = true; }
                _ => { let m = rng.next() as u16; c.retain(|k, _| (m >> (k.0 % 16)) & 1 == 1); }
            }
            let hashes = HASHES.with(|h| h.get()) as usize;
            let departed = if matches!(op, 0 | 1) { (len0 + 1).saturating_sub(c.len()) } else { len0.saturating_sub(c.len()) };
            let grew = c.capacity() > cap0 && matches!(op, 0 | 1);
            let bound = 2 + departed + if rebuild_allowed || grew { len0 } else { 0 };
            if zero && hashes != 0 { return Err(format!("[C20] operation {} (a traversal or LRU/MRU peek) computed {} hashes", op, hashes)); }
            if hashes > bound { return Err(format!("[C20] operation {} on {} entries computed {} hashes; bound 2 + {} departures{} = {}", op, len0, hashes, departed, if rebuild_allowed || grew { " + len (rebuild)" } else { "" }, bound)); }
            c.set_max_size(usize::MAX);
        }
        Ok(())
    }

    pub fn search(prop: &str, seed: u64, budget_ms: u64) -> Option<String> {
        let mut rng = Rng(seed.wrapping_mul(0x9E3779B97F4A7C15) | 1);
        let t0 = std::time::Instant::now();
        while t0.elapsed() < std::time::Duration::from_millis(budget_ms) {
            let r = match prop { "C06" => c06(&mut rng), "C16" => c16(&mut rng), "C20" => c20(&mut rng), "C19" | "C14" => c19(&mut rng), _ => return None };
            if let Err(m) = r { return Some(m); }
        }
        None
    }
}
