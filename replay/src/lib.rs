//! Native replay of verifier findings against the real crate in /repo (real hashbrown).
