//! The five defects found by the verifiers while designing /verif, as native scenarios on the real
//! crate.  Each test passes on a tree where the defect is repaired and fails where it is present.
use lru_mem::{HeapSize, LruCache};
use std::cell::Cell;
use std::hash::{BuildHasherDefault, Hash, Hasher};
use std::panic::{catch_unwind, AssertUnwindSafe};
use std::rc::Rc;

#[derive(Debug)]
struct D(u32, Rc<Cell<i32>>);
impl Drop for D { fn drop(&mut self) { self.1.set(self.1.get() + 1); } }
impl HeapSize for D { fn heap_size(&self) -> usize { 0 } }
impl PartialEq for D { fn eq(&self, o: &D) -> bool { self.0 == o.0 } }
impl Eq for D {}
impl Hash for D { fn hash<H: Hasher>(&self, h: &mut H) { h.write_u32(self.0) } }

#[test]
fn c17_forget_drain_after_next() {
    let drops = Rc::new(Cell::new(0));
    let mut c: LruCache<D, D> = LruCache::new(usize::MAX);
    for i in 0..2 { c.insert(D(i, drops.clone()), D(100 + i, drops.clone())).unwrap(); }
    {
        let mut d = c.drain();
        let first = d.next();
        std::mem::forget(d);
        drop(first);
    }
    assert_eq!(c.len(), 0, "a cache that was being drained must remain a valid (empty) cache");
    drop(c);
    assert!(drops.get() <= 4, "double drop: {} drops of 4 objects", drops.get());
}

thread_local! { static PANIC_AT: Cell<i32> = Cell::new(-1); static HASHES: Cell<i32> = Cell::new(0); }
#[derive(Debug)]
struct P(u32);
impl HeapSize for P { fn heap_size(&self) -> usize { 0 } }
impl PartialEq for P { fn eq(&self, o: &P) -> bool { self.0 == o.0 } }
impl Eq for P {}
impl Hash for P {
    fn hash<H: Hasher>(&self, h: &mut H) {
        let n = HASHES.with(|c| { c.set(c.get() + 1); c.get() });
        if PANIC_AT.with(|c| c.get()) == n { panic!("injected hash panic"); }
        h.write_u32(self.0)
    }
}

#[test]
fn c16_hash_panic_in_reallocate() {
    for at in 1..=3 {
        let mut c: LruCache<P, u32> = LruCache::with_capacity(usize::MAX, 3);
        for i in 0..3 { c.insert(P(i), i).unwrap(); }
        HASHES.with(|c| c.set(0));
        PANIC_AT.with(|c| c.set(at));
        let r = catch_unwind(AssertUnwindSafe(|| c.reserve(100)));
        PANIC_AT.with(|c| c.set(-1));
        assert!(r.is_err());
        let fwd: Vec<u32> = c.iter().map(|(k, _)| k.0).collect();
        let mut bwd: Vec<u32> = c.iter().rev().map(|(k, _)| k.0).collect();
        bwd.reverse();
        assert_eq!(fwd.len(), c.len(), "traversal length differs from len() after a Hash panic at call {}", at);
        assert_eq!(fwd, bwd);
        for k in &fwd { assert!(c.contains(&P(*k))); }
    }
}

#[test]
fn c09_pathbuf_counts_capacity() {
    let p = std::path::PathBuf::with_capacity(64);
    assert_eq!(p.heap_size(), p.capacity());
}

#[test]
fn c08_many_empty_sections_do_not_recurse() {
    // run on a small stack so that the outcome does not depend on the optimisation level
    let h = std::thread::Builder::new().stack_size(256 * 1024).spawn(|| {
        let v: Vec<[String; 0]> = vec![[]; 200_000];
        v.heap_size()
    }).unwrap();
    assert_eq!(h.join().expect("heap_size overflowed the stack"), 0);
}

#[derive(Default, Clone)]
struct ConstHasher;
impl Hasher for ConstHasher { fn finish(&self) -> u64 { 0 } fn write(&mut self, _b: &[u8]) {} }

#[test]
fn c13_shrink_never_raises_capacity() {
    let mut c: LruCache<u32, u32, BuildHasherDefault<ConstHasher>> =
        LruCache::with_capacity_and_hasher(usize::MAX, 28, Default::default());
    for i in 0..27 { c.insert(i, i).unwrap(); }
    c.remove(&0);
    let before = c.capacity();
    c.shrink_to_fit();
    assert!(c.capacity() <= before, "shrink_to_fit raised the capacity from {} to {}", before, c.capacity());
    assert!(c.capacity() >= c.len());
}
