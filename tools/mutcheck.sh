#!/bin/sh
# mutcheck.sh <patch.diff> <property id> [extra check args]
# Applies a seeded change to a scratch copy of /repo (never to /repo itself) and runs the property's check on it.
PATCH=$(readlink -f "$1"); PID=$2; shift 2
D=/var/tmp/mut-$$
rm -rf $D; mkdir -p $D/repo $D/out
(cd /repo && tar --exclude=target --exclude=.git -cf - .) | tar -x -C $D/repo
(cd $D/repo && patch -p1 -s < "$PATCH") || { echo "patch does not apply"; rm -rf $D; exit 3; }
# mtimes must be newer than any cached build (cargo freshness is mtime-based)
find $D/repo -type f -exec touch {} +
VERIF_REPO=$D/repo VERIF_OUT=$D/out /verif/check $PID "$@"
rc=$?
echo "mutcheck: property=$PID patch=$PATCH exit=$rc"
mkdir -p /verif/.work/mutout && cp -r $D/out/replays /verif/.work/mutout/ 2>/dev/null
rm -rf $D
exit $rc
