#!/usr/bin/env python3
"""Regenerate /verif/MANIFEST.json from lib/props.py (single source of truth for levels, assumptions and harness lists)."""
import json, os, subprocess, sys
HERE = os.path.dirname(os.path.dirname(os.path.abspath(__file__)))
sys.path.insert(0, os.path.join(HERE, 'lib'))
import props
TECH = {'proof': 'contract-based deductive verification: Verus (Z3) contracts on functions extracted mechanically from /repo on every run; assumed pointer-layer contracts exercised by bounded Kani harnesses',
        'model_checking': 'contract-style bounded verification: Kani/CBMC harnesses and function contracts (modifies frames) on the real unsafe code over a contract double of hashbrown RawTable; Verus contracts for the parts it reaches'}
checks = []
for pid, cfg in sorted(props.PROPS.items()):
    lvl = cfg['level']
    if lvl == 'proof':
        text = ('Deductive proof (Verus/Z3) of every clause tagged %s on the real function bodies extracted from /repo on every run, for all inputs, sizes, limits, list lengths, orders, hashers and capacities, '
                'relative to the assumed contracts of the unsafe pointer layer and of hashbrown; those assumed contracts are exercised boundedly (Kani, <= 3 entries; labelled bounded, never counted as proved)' % pid
                + ('; the link-manipulating part of the pointer layer is in addition proved without bound in heap-passing form (template l1, DESIGN section 3.8) relative to the memory model A-HEAP.' if 'l1' in cfg['templates'] else '.'))
        text += (' ' + cfg['level_extra']) if cfg.get('level_extra') else ''
    else:
        text = ('Bounded model checking (Kani/CBMC) of the real unsafe code for caches of <= 3 entries / capacity <= 4 with contract-style postconditions (structural walker, ownership ledger, fingerprint, counters, modifies frames)'
                + ('; in addition Verus proves, without bound, the clauses tagged %s on the extracted functions' % pid if cfg['templates'] else '')
                + ((' -- since round 8 including the link-manipulating pointer code itself in heap-passing form (template l1, DESIGN section 3.8: ring invariant, order effects, fresh addresses, the node heap unchanged by &self functions), relative to the assumed memory model A-HEAP') if 'l1' in cfg['templates'] else '')
                + '. What no contract in reach decides for this property (liveness of buckets and initialisation of memory, ownership of moved-out values, unwinding, hash counts) stays with the bounded harnesses: that is the bounded stand-in the technique allows, labelled bounded and never counted as proved.')
    checks.append({
        'property_id': pid,
        'quick_cmd': './check %s --tier quick' % pid,
        'thorough_cmd': './check %s --tier thorough' % pid,
        'evidence_file': '/verif/evidence/%s.json' % pid,
        'replay_cmd_template': './check %s --replay {path}' % pid,
        'engine': 'V+K' if cfg['templates'] and cfg['k_quick'] else ('V' if cfg['templates'] else 'K'),
        'level_claimed': {'category': lvl, 'text': text, 'design_ref': cfg['design']},
        'level_note': ' | '.join(cfg['assumptions']),
        'technique': TECH[lvl],
    })
hook = subprocess.run(['git', '-C', '/repo', 'log', '--format=%H', '--grep=^verif hook', '-n', '5'], capture_output=True, text=True).stdout.split()
m = {'version': 1, 'setup_cmd': './setup.sh',
     'hooks': {'guard': 'cfg(kani) (set only by the Kani compiler) / --cfg lru_mem_verif (reserved for native builds)',
               'enable': 'cargo kani on a scratch copy of /repo: cfg(kani) swaps hashbrown::raw::RawTable for /verif/hooks/table.rs and includes /verif/hooks/mod.rs; harness files are selected with --cfg verif_g_<file>',
               'baseline_off_cmd': 'cd /repo && cargo test --workspace --no-fail-fast --offline',
               'source_commits': hook, 'add_only': True},
     'engines': [{'name': 'V', 'path': '/verif/lib/vengine.py', 'serves_properties': [p for p, c in sorted(props.PROPS.items()) if c['templates']],
                  'kind_free_text': 'Verus 0.2026.09.13 on functions extracted mechanically from /repo/src (and hashbrown sizing functions from the registry) on every run; templates /verif/verus/*.vt'},
                 {'name': 'K', 'path': '/verif/lib/kengine.py', 'serves_properties': [p for p, c in sorted(props.PROPS.items()) if c['k_quick']],
                  'kind_free_text': 'Kani 0.68 / CBMC 6.11 harnesses and function contracts in /verif/hooks/harness over the real crate with a contract double of RawTable (bounded)'}],
     'checks': checks,
     'not_applicable': [{'property_id': p, 'reason': r} for p, r in props.NOT_APPLICABLE.items()],
     'notes': 'exit 0 = all obligations discharged; exit 1 + VIOLATION line = a failed obligation (replay file names it); exit 2 = undecided (lost anchor, unsupported construct, resource limit, timeout; never an alarm). Five defects of the pinned tree were repaired by fix: commits (known-findings.txt). See DESIGN.md sections 0a/0b for the as-built state and the seeded-change matrix.'}
json.dump(m, open(os.path.join(HERE, 'MANIFEST.json'), 'w'), indent=1)
print('MANIFEST.json written: %d checks' % len(checks))
