#!/bin/sh
# verify_seeds.sh [name...] -- re-confirm every kept seed from its stored files in a fresh copy of /repo with its
# own target directory: demo passes without the change, fails with it, the existing suite passes with it.
cd /verif/seeded
NAMES="$@"; [ -z "$NAMES" ] && NAMES=$(ls)
for n in $NAMES; do
  D=/var/tmp/vseed-$$; rm -rf $D; mkdir -p $D
  (cd /repo && tar --exclude=target --exclude=.git -cf - .) | tar -x -C $D
  find $D -type f -exec touch {} +
  demo=$(ls /verif/seeded/$n/demo_*.rs | head -1); t=$(basename $demo .rs)
  cp $demo $D/tests/
  export CARGO_TARGET_DIR=$D/target
  a=$(cd $D && cargo test --offline --test $t 2>&1 | grep -E "^test result" | head -1 | cut -c1-40)
  (cd $D && patch -p1 -s < /verif/seeded/$n/patch.diff) || { echo "$n PATCH-DOES-NOT-APPLY"; rm -rf $D; continue; }
  find $D/src -type f -exec touch {} +
  b=$(cd $D && cargo test --offline --test $t 2>&1 | grep -E "^test result" | head -1 | cut -c1-40)
  rm $D/tests/$t.rs
  c=$(cd $D && cargo test --offline --no-fail-fast 2>&1 | grep -E "^test result" | grep -c "ok\.")
  f=$(cd $D && cargo test --offline --no-fail-fast 2>&1 | grep -E "^test result" | grep -c "FAILED")
  echo "$n | without: $a | with: $b | suite with change: $c targets ok, $f failed"
  rm -rf $D
done
