#!/usr/bin/env python3
"""auto_mutate.py [--max N] -- mechanical mutation run over the functions engine V verifies (hardening aid, not a check).
For every mutant that still compiles: does Verus reject it (some obligation fails), time out (undecided), or accept it
(survivor: equivalent mutant, or a contract that is too weak)?  Survivors are listed for triage."""
import json, os, re, shutil, subprocess, sys, time
HERE = os.path.dirname(os.path.dirname(os.path.abspath(__file__)))
sys.path.insert(0, os.path.join(HERE, 'lib'))
import vengine, vgen
from rsrc import Source, mask

REPO = '/repo'
WORK = '/var/tmp/automut'
shutil.rmtree(WORK, ignore_errors=True)
os.makedirs(WORK)
for n in os.listdir(REPO):
    if n in ('target', '.git'): continue
    s = os.path.join(REPO, n)
    (shutil.copytree if os.path.isdir(s) else shutil.copy)(s, os.path.join(WORK, n))
subprocess.run(['find', WORK, '-type', 'f', '-exec', 'touch', '{}', '+'])
env = dict(os.environ, CARGO_TARGET_DIR=os.path.join(WORK, 'target'), CARGO_NET_OFFLINE='true')

targets = {'lib.rs': 'l2', 'iter.rs': 'iter'}
tmpl_override = next((a.split('=')[1] for a in sys.argv if a.startswith('--template=')), None)
if tmpl_override:
    # e.g. --template=l1: the pointer layer in heap-passing form spans three files
    targets = {rel: tmpl_override for rel in ('entry.rs', 'lib.rs', 'iter.rs')}
mutants = []
for rel, tmpl in targets.items():
    gen = vgen.expand(vengine.TEMPLATES[tmpl], os.path.join(REPO, 'src'))
    src = Source(os.path.join(REPO, 'src', rel), rel)
    for f in gen.functions:
        if f['file'] != rel: continue
        fn = src.find_fn(re.escape(f['impl']) if f['impl'] else '', f['name']) if False else None
    text = src.src
    m = mask(text)
    # spans of the verified functions
    spans = []
    for f in gen.functions:
        if f['file'] != rel: continue
        try:
            ff = src.find_fn('^' + re.escape(f['impl']) + '$' if f['impl'] else '', f['name'])
        except Exception:
            continue
        st = text.index(ff.text)
        spans.append((st + len(ff.sig), st + len(ff.text), f['fn']))
    ops = [(r'(?<![<>=!-])>(?![>=])', '>='), (r'>=', '>'), (r'(?<![<>=!-])<(?![<=])', '<='), (r'<=', '<'), (r'==', '!='), (r'!=', '=='),
           (r'(?<![+=-])\+(?![+=])', '-'), (r'(?<![-=>])-(?![-=>])', '+'), (r'\+=', '-='), (r'-=', '+='), (r'\.prev\b', '.next'), (r'\.next\b(?!_)', '.prev'),
           (r'\bnext_back\b', 'next'), (r'\* 2\b', '* 3'), (r'\.max\(', '.min(')]
    for a, b, fname in spans:
        body_m = m[a:b]
        for rx, rep in ops:
            for mt in re.finditer(rx, body_m):
                pos = a + mt.start()
                # skip generics / arrows / lifetimes
                ctx = text[max(0, pos - 2):pos + 3]
                if '->' in ctx or '=>' in ctx: continue
                if rx in (r'(?<![<>=!-])>(?![>=])', r'(?<![<>=!-])<(?![<=])'):
                    # only comparison operators: require spaces around
                    if not (text[pos - 1] == ' ' and text[pos + 1] == ' '): continue
                mutants.append((rel, tmpl, fname, pos, pos + len(mt.group(0)), rep, 'op %s->%s' % (mt.group(0), rep)))
        # statement deletion: lines that are a single call / assignment statement
        off = a
        for ln in text[a:b].split('\n'):
            s_ = ln.strip()
            if s_.endswith(';') and not s_.startswith('let ') and not s_.startswith('return') and not s_.startswith('//') and '{' not in s_ and '}' not in s_:
                mutants.append((rel, tmpl, fname, off, off + len(ln), '', 'delete `%s`' % s_[:60]))
            off += len(ln) + 1
only = next((a.split('=')[1].split(',') for a in sys.argv if a.startswith('--only=')), None)
if only:
    mutants = [m_ for m_ in mutants if any(m_[2] == o or m_[2].endswith('::' + o) for o in only)]
maxn = int(next((a.split('=')[1] for a in sys.argv if a.startswith('--max=')), 10 ** 6))
print('%d candidate mutants' % len(mutants), flush=True)
res = []
orig = {rel: open(os.path.join(REPO, 'src', rel)).read() for rel in targets}
t0 = time.time()
for i, (rel, tmpl, fname, a, b, rep, desc) in enumerate(mutants[:maxn]):
    text = orig[rel]
    mt = text[:a] + rep + text[b:]
    for r2 in targets: open(os.path.join(WORK, 'src', r2), 'w').write(orig[r2])
    open(os.path.join(WORK, 'src', rel), 'w').write(mt)
    c = subprocess.run(['cargo', 'check', '--offline', '-q'], cwd=WORK, env=env, stdout=subprocess.DEVNULL, stderr=subprocess.DEVNULL)
    if c.returncode != 0:
        continue
    r = vengine.run_template(tmpl, os.path.join(WORK, 'src'), os.path.join(WORK, 'v'), canary=False)
    if r['failures']:
        verdict = 'rejected'
    elif r['status'] != 'ok':
        verdict = 'undecided: ' + str(r['reason'])[:80]
    else:
        verdict = 'SURVIVED'
    line = text.count('\n', 0, a) + 1
    res.append({'file': rel, 'line': line, 'function': fname, 'mutation': desc, 'verdict': verdict,
                'failed': sorted({'%s:%s' % (f['function'], f['kind']) for f in r['failures']})[:4]})
    print('%s:%d %s | %s | %s' % (rel, line, fname, desc, verdict), flush=True)
json.dump(res, open(os.path.join(HERE, '.work', 'auto_mutate%s%s.json' % ('_' + tmpl_override if tmpl_override else '', '_' + '_'.join(only) if only else '')), 'w'), indent=1)
tot = len(res)
print('compiling mutants: %d, rejected %d, undecided %d, survived %d (%.0fs)' % (tot, sum(r['verdict'] == 'rejected' for r in res),
      sum(r['verdict'].startswith('undecided') for r in res), sum(r['verdict'] == 'SURVIVED' for r in res), time.time() - t0))
shutil.rmtree(WORK, ignore_errors=True)
