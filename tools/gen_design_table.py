#!/usr/bin/env python3
"""Insert/refresh the per-property 'as built' table of DESIGN.md (between the BEGIN/END markers) from lib/props.py."""
import os, sys
HERE = os.path.dirname(os.path.dirname(os.path.abspath(__file__)))
sys.path.insert(0, os.path.join(HERE, 'lib'))
import props
rows = ['| id | level claimed | Verus templates (unbounded, over assumed L1 contracts) | Kani quick harnesses (bounded) | added in thorough |', '|----|----|----|----|----|']
for pid, c in sorted(props.PROPS.items()):
    rows.append('| %s %s | %s | %s | %s | %s |' % (pid, c['title'], c['level'], ', '.join(c['templates']) or '—',
                ', '.join(h[2:] for h in c['k_quick']) or '—', ', '.join(h[2:] for h in c['k_thorough']) or '—'))
for pid, r in props.NOT_APPLICABLE.items():
    rows.append('| %s | not applicable | — | — | — |' % pid)
block = '<!-- BEGIN props table -->\n' + '\n'.join(rows) + '\n<!-- END props table -->'
p = os.path.join(HERE, 'DESIGN.md')
s = open(p).read()
if '<!-- BEGIN props table -->' in s:
    a = s.index('<!-- BEGIN props table -->'); b = s.index('<!-- END props table -->') + len('<!-- END props table -->')
    s = s[:a] + block + s[b:]
else:
    marker = '**Frame contracts (Kani function contracts'
    s = s.replace(marker, '**Per property, as built** (generated from `lib/props.py` by `tools/gen_design_table.py`; clause tags `/*@Cxx*/` in the\ntemplates decide which Verus obligations belong to which property):\n\n' + block + '\n\n' + marker, 1)
open(p, 'w').write(s)
print('table written')
