#!/bin/sh
# keep_seed.sh <worktree> <property id> <name>
# Confirms a seeded change independently in a fresh scratch copy of /repo and stores it under /verif/seeded/<name>/
WT=$1; PID=$2; NAME=$3
LOW=$(echo $PID | tr A-Z a-z)
D=/var/tmp/seed-$$
rm -rf $D; mkdir -p $D
(cd /repo && tar --exclude=target --exclude=.git -cf - .) | tar -x -C $D
cd $D
cp $WT/tests/demo_$LOW.rs tests/ || exit 1
export CARGO_TARGET_DIR=$D/target   # never share a target directory between different trees (cargo freshness is mtime-based)
find $D -type f -exec touch {} +
echo "== demo without the change"; cargo test --offline --test demo_$LOW 2>&1 | grep -E "^test result" ; r_without=$?
patch -p1 -s < $WT/patch.diff || { echo "patch does not apply"; exit 1; }
echo "== demo with the change"; cargo test --offline --test demo_$LOW 2>&1 | grep -E "^test result"
mv tests/demo_$LOW.rs /tmp/demo_$LOW.rs.keep
echo "== existing suite with the change"; cargo test --offline --no-fail-fast 2>&1 | grep -E "^test result|FAILED"
mkdir -p /verif/seeded/$NAME
cp $WT/patch.diff /verif/seeded/$NAME/patch.diff
cp /tmp/demo_$LOW.rs.keep /verif/seeded/$NAME/demo_$LOW.rs
cd /; rm -rf $D
