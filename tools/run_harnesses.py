#!/usr/bin/env python3
"""run_harnesses.py <prefix-or-name>... [--jobs N] [--timeout S]  -- run Kani harnesses by name prefix and print a table"""
import json, os, sys
HERE = os.path.dirname(os.path.dirname(os.path.abspath(__file__)))
sys.path.insert(0, os.path.join(HERE, 'lib'))
import kengine, klist
args = [a for a in sys.argv[1:] if not a.startswith('--')]
jobs = int(next((a.split('=')[1] for a in sys.argv if a.startswith('--jobs=')), 8))
timeout = int(next((a.split('=')[1] for a in sys.argv if a.startswith('--timeout=')), 3600))
hs = [h for f, h in klist.all_harnesses() if any(h == a or h.startswith(a) for a in args)]
res, meta = kengine.run_harnesses(os.environ.get('VERIF_REPO', '/repo'), hs, jobs=jobs, timeout=timeout, playback=False)
for r in res:
    print(r['harness'], r['status'], r.get('cbmc_s'), r['wall_s'], r.get('reason', ''), [f['description'][:100] for f in r['failed_checks']][:4], flush=True)
