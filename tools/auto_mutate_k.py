#!/usr/bin/env python3
"""auto_mutate_k.py [--prop=C07] [--max=N] -- mechanical mutation run over the pointer layer (hardening aid, not a check).
Only mutants that still compile AND pass the whole existing test suite are kept (the realistic ones); each is then
judged by the quick check of the given property on a scratch copy."""
import json, os, re, shutil, subprocess, sys, time
HERE = os.path.dirname(os.path.dirname(os.path.abspath(__file__)))
sys.path.insert(0, os.path.join(HERE, 'lib'))
from rsrc import Source, mask
REPO = '/repo'
prop = next((a.split('=')[1] for a in sys.argv if a.startswith('--prop=')), 'C07')
maxn = int(next((a.split('=')[1] for a in sys.argv if a.startswith('--max=')), 10 ** 6))
WORK = '/var/tmp/automutk'
shutil.rmtree(WORK, ignore_errors=True); os.makedirs(WORK)
for n in os.listdir(REPO):
    if n in ('target', '.git'): continue
    s = os.path.join(REPO, n)
    (shutil.copytree if os.path.isdir(s) else shutil.copy)(s, os.path.join(WORK, n))
subprocess.run(['find', WORK, '-type', 'f', '-exec', 'touch', '{}', '+'])
env = dict(os.environ, CARGO_TARGET_DIR=os.path.join(WORK, 'target'), CARGO_NET_OFFLINE='true')
TARGETS = {'entry.rs': [('^impl<K, V> EntryPtr<K, V>$', ['new_seal', 'unhinge', 'insert', 'read']), ('^impl<K, V> Entry<K, V>$', ['unhinge', 'drop', 'into_key_value', 'new']), ('^impl<K: Clone, V: Clone> Entry<K, V>$', ['clone'])],
           'lib.rs': [('LruCache<K, V, S>', ['clear', 'set_head', 'touch_ptr', 'insert_untracked', 'reallocate_into', 'lru_ptr', 'mru_ptr', 'retain', 'clone', 'drop', 'insert_into_table_with_hash'])],
           'iter.rs': [("^impl<'a, K, V, S> Drain<'a, K, V, S>$", ['new']), ("Drop for Drain", ['drop']), ("Drop for IntoIter", ['drop']), ("^impl<K, V, S> IntoIter<K, V, S>$", ['new'])]}
ops = [(r'\.prev\b', '.next'), (r'\.next\b(?!_)', '.prev'), (r'\bnext_back\b', 'next'), (r'==', '!='), (r'!=', '==')]
mutants = []
orig = {}
for rel, groups in TARGETS.items():
    src = Source(os.path.join(REPO, 'src', rel), rel)
    orig[rel] = src.src
    m = src.m
    for sel, names in groups:
        for nm in names:
            try:
                f = src.find_fn(sel, nm)
            except Exception as e:
                continue
            st = src.src.index(f.text); a, b = st + len(f.sig), st + len(f.text)
            for rx, rep in ops:
                for mt in re.finditer(rx, m[a:b]):
                    mutants.append((rel, nm, a + mt.start(), a + mt.end(), rep, 'op %s->%s' % (mt.group(0), rep)))
            off = a
            for ln in src.src[a:b].split('\n'):
                s_ = ln.strip()
                if s_.endswith(';') and not s_.startswith('let ') and not s_.startswith('//') and '{' not in s_ and '}' not in s_:
                    mutants.append((rel, nm, off, off + len(ln), '', 'delete `%s`' % s_[:60]))
                off += len(ln) + 1
print('%d candidates' % len(mutants), flush=True)
res = []
for i, (rel, fn, a, b, rep, desc) in enumerate(mutants[:maxn]):
    for r2 in orig: open(os.path.join(WORK, 'src', r2), 'w').write(orig[r2])
    open(os.path.join(WORK, 'src', rel), 'w').write(orig[rel][:a] + rep + orig[rel][b:])
    if subprocess.run(['cargo', 'check', '--offline', '-q'], cwd=WORK, env=env, stdout=subprocess.DEVNULL, stderr=subprocess.DEVNULL).returncode != 0:
        continue
    line = orig[rel].count('\n', 0, a) + 1
    import signal
    pr = subprocess.Popen(['cargo', 'test', '--offline', '--no-fail-fast', '-q'], cwd=WORK, env=env, stdout=subprocess.DEVNULL, stderr=subprocess.DEVNULL, start_new_session=True)
    try:
        rc_t = pr.wait(timeout=240)
    except subprocess.TimeoutExpired:
        os.killpg(pr.pid, signal.SIGKILL); pr.wait()
        rc_t = 1      # a test that hangs counts as killed by the tests
    class T: pass
    t = T(); t.returncode = rc_t
    if t.returncode != 0:
        print('%s:%d %s | %s | killed by the existing tests' % (rel, line, fn, desc), flush=True)
        continue
    out = os.path.join(WORK, 'out'); shutil.rmtree(out, ignore_errors=True)
    e2 = dict(os.environ, VERIF_REPO=WORK, VERIF_OUT=out)
    c = subprocess.run([os.path.join(HERE, 'check'), prop, '--tier', 'quick'], env=e2, stdout=subprocess.PIPE, stderr=subprocess.STDOUT, text=True)
    verdict = {0: 'SURVIVED', 1: 'caught', 2: 'undecided'}.get(c.returncode, str(c.returncode))
    first = next((l.strip() for l in c.stdout.split('\n') if 'failed obligation' in l or 'UNDECIDED' in l), '')
    res.append({'file': rel, 'line': line, 'function': fn, 'mutation': desc, 'verdict': verdict, 'first': first})
    print('%s:%d %s | %s | PASSES THE TESTS -> %s %s' % (rel, line, fn, desc, verdict, first[:90]), flush=True)
json.dump(res, open(os.path.join(HERE, '.work', 'auto_mutate_k_%s.json' % prop), 'w'), indent=1)
print('test-surviving mutants: %d, caught %d, undecided %d, survived %d' % (len(res), sum(r['verdict'] == 'caught' for r in res), sum(r['verdict'] == 'undecided' for r in res), sum(r['verdict'] == 'SURVIVED' for r in res)))
shutil.rmtree(WORK, ignore_errors=True)
