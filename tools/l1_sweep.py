#!/usr/bin/env python3
"""l1_sweep.py [template]: run one Verus template on a scratch copy of /repo with every kept seed / self-test mutant / refactor applied.
Hardening aid, not a check."""
import glob, os, shutil, subprocess, sys
HERE = os.path.dirname(os.path.dirname(os.path.abspath(__file__)))
sys.path.insert(0, os.path.join(HERE, 'lib'))
import vengine
T = sys.argv[1] if len(sys.argv) > 1 else 'l1'
pats = [os.path.abspath(x) for x in sys.argv[2:]] or (sorted(glob.glob(HERE + '/seeded/*/patch.diff')) + sorted(glob.glob(HERE + '/tools/selftest/*.diff')) + sorted(glob.glob(HERE + '/tools/refactors/*.diff')))
W = '/var/tmp/l1sweep-%d' % os.getpid()
for p in pats:
    d = W + '/tree'
    shutil.rmtree(W, ignore_errors=True); os.makedirs(d)
    subprocess.run('cd /repo && tar --exclude=target --exclude=.git -cf - . | tar -x -C %s' % d, shell=True, check=True)
    if subprocess.run(['patch', '-p1', '-s', '-i', p], cwd=d, stdout=subprocess.DEVNULL, stderr=subprocess.DEVNULL).returncode != 0:
        print('%-40s patch does not apply' % p[len(HERE)+1:]); continue
    r = vengine.run_template(T, d + '/src', W + '/v', canary=False)
    fails = sorted(set('%s[%s]' % (f['function'], ' '.join(f['tags'])) for f in r.get('failures', [])))
    print('%-40s %-9s %s %s' % (p[len(HERE)+1:].replace('/patch.diff', ''), r['status'], ' '.join(fails), (r.get('reason') or '')[:150]))
    sys.stdout.flush()
shutil.rmtree(W, ignore_errors=True)
