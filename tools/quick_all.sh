#!/bin/sh
# run every property's quick check once on /repo (writes /verif/evidence/<id>.json); VERIF_SEED / VERIF_JOBS are honoured
cd /verif
for p in C10 C08 C09 C11 C17 C03 C20 C15 C16 C13 C12 C14 C19 C04 C01 C02 C05 C06 C07; do
  s=$(date +%s); ./check $p --tier quick > /var/tmp/quick_$p.log 2>&1; rc=$?; e=$(date +%s)
  echo "$p rc=$rc $((e-s))s $(grep -v '^WARNING' /var/tmp/quick_$p.log | tail -1 | cut -c1-160)"
done
