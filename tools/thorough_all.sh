#!/bin/sh
# run every property's thorough check once (hours); evidence/replays go to a scratch directory
cd /verif
export VERIF_OUT=/var/tmp/verif-thorough-out
for p in C10 C08 C09 C11 C17 C03 C20 C15 C16 C13 C12 C06 C14 C19 C04 C01 C02 C05 C07; do
  s=$(date +%s); ./check $p --tier thorough > /var/tmp/thorough_$p.log 2>&1; rc=$?; e=$(date +%s)
  echo "$p rc=$rc $((e-s))s $(tail -1 /var/tmp/thorough_$p.log | cut -c1-150)"
done
