"""Bounded native search for a failing input when a Verus obligation fails (Verus has no counterexamples).
Builds /verif/replay (path dependency on /repo, real hashbrown) and runs random operation sequences
against an executable rendering of the contracts' oracle."""
import json
import os
import subprocess

VERIF = os.path.dirname(os.path.dirname(os.path.abspath(__file__)))
CRATE = os.path.join(VERIF, 'replay')
TARGET = os.path.join(VERIF, '.work', 'replay-target')


def build(repo='/repo'):
    """the replay crate depends on lru-mem by path; for a repo other than /repo a copy of the crate
    with the path rewritten is built (used when checks are pointed at a scratch worktree via VERIF_REPO)"""
    import shutil
    env = dict(os.environ, CARGO_NET_OFFLINE='true')
    crate = CRATE
    repo = os.path.abspath(repo)
    if repo != '/repo':
        crate = os.path.join(VERIF, '.work', 'replay-src')
        shutil.rmtree(crate, ignore_errors=True)
        os.makedirs(crate)
        for n in ('Cargo.toml', 'Cargo.lock'):
            shutil.copy(os.path.join(CRATE, n), crate)
        shutil.copytree(os.path.join(CRATE, 'src'), os.path.join(crate, 'src'))
        t = open(os.path.join(crate, 'Cargo.toml')).read().replace('path = "/repo"', 'path = "%s"' % repo)
        global TARGET
        TARGET = os.path.join(VERIF, '.work', 'replay-target-alt')   # never share build output between different trees
        shutil.rmtree(TARGET, ignore_errors=True)
        open(os.path.join(crate, 'Cargo.toml'), 'w').write(t)
    p = subprocess.run(['cargo', 'build', '--offline', '--bin', 'witness', '--target-dir', TARGET], cwd=crate, env=env,
                       stdout=subprocess.PIPE, stderr=subprocess.STDOUT, text=True, timeout=900)
    if p.returncode != 0:
        raise RuntimeError('witness build failed: ' + p.stdout[-800:])
    return os.path.join(TARGET, 'debug', 'witness')


def search(pid, violation, repo, seed, budget_ms=20000):
    exe = build(repo)
    focus = violation.get('function', '')
    p = subprocess.run([exe, 'search', str(seed + 1), str(budget_ms), focus, pid], stdout=subprocess.PIPE, stderr=subprocess.DEVNULL,
                       text=True, timeout=budget_ms / 1000 + 120)
    line = (p.stdout.strip().split('\n') or [''])[-1]
    try:
        w = json.loads(line)
    except ValueError:
        return {'found': False, 'error': 'unparsable witness output', 'raw': p.stdout[-500:]}
    if w.get('found') and w.get('scenario'):
        w['seed'] = seed + 1
    if w.get('found'):
        w['note'] = ('input found by bounded native search on the real crate (real hashbrown): random operation sequences, each step judged '
                     'against an executable rendering of the contracts for that operation; only failures tagged with this property count')
        if not w.get('scenario'):
            w['rerun'] = rerun_cmd(w)
    return w


def rerun_cmd(w):
    return ['replay', str(w['max_size']), str(w['capacity']), w['hasher']] + [json.dumps(o) for o in w['ops']]


def rerun(w, repo):
    if w.get('kind', '').startswith('kani'):
        print('Kani counterexample (concrete value of every kani::any() of the harness, as a unit test for `cargo kani playback`):')
        print(w.get('unit_test') or '(none)')
        return 0
    exe = build(repo)
    if w.get('scenario'):
        # instrumented scenario (C06 / C16 / C20): deterministic in the seed
        prop = w['scenario'].split('::')[-1]
        p = subprocess.run([exe, 'search', str(w.get('seed', 1)), '20000', '', prop], stdout=subprocess.PIPE, stderr=subprocess.DEVNULL, text=True, timeout=120)
        print(p.stdout.strip())
        return p.returncode
    p = subprocess.run([exe] + rerun_cmd(w), stdout=subprocess.PIPE, stderr=subprocess.STDOUT, text=True, timeout=120)
    print(p.stdout.strip())
    return p.returncode
