"""Per-property configuration: which obligations of which engine carry the property."""

# K harness sets.  q_* = quick tier, t_* = thorough tier (thorough runs both).
SUB_Q = ['q_sub_lru_mru_ptr', 'q_sub_insert_set_head', 'q_sub_touch_ptr', 'q_sub_touch_ptr_only', 'q_sub_remove_entry',
         'q_sub_get_from_table', 'q_sub_realloc_grow', 'q_sub_realloc_shrink', 'q_sub_realloc_fail', 'q_sub_new_seal', 'q_sub_builder', 'q_sub_insert_untracked', 'q_sub_small_insert', 'q_sub_small_remove', 'q_sub_small_realloc']
SUB_T = ['t_sub_lru_mru_ptr', 't_sub_insert_set_head', 't_sub_touch_ptr', 't_sub_remove_entry', 't_sub_get_from_table',
         't_sub_realloc', 't_sub_realloc_fail']

A_HB = 'A-HB: hashbrown 0.14.5 RawTable meets its documented contract for the API subset used (not verified; Kani cannot execute it)'
A_SUB = 'A-SUB: contracts of the unsafe pointer layer L1 (set_head, touch_ptr, lru_ptr, mru_ptr, *_from_table, insert_into_table_with_hash, try_reallocate, reallocate, Entry::*, EntryPtr::*) are assumed by Verus in templates l2 / iter (external_body); they are checked boundedly by the Kani harnesses listed under bounded_obligations, and the link-level ones (set_head, touch_ptr, lru_ptr, mru_ptr, Entry::unhinge, EntryPtr::{unhinge,insert,new_seal}, insert_untracked, reallocate_into, the node contract A-NODE) are PROVED with their real bodies in template l1 over the mutable node heap -- in l1\'s own vocabulary; the identification of the clause pairs is by inspection (DESIGN section 3.8)'
A_DOUBLE = 'A-DOUBLE: the Kani table double /verif/hooks/table.rs implements A-HB (hand-written, reviewed against hashbrown source)'
A_PURE = 'A-PURE: heap_size/mem_size are deterministic functions of the value; sizes change only inside mutate'
A_EQ = 'A-EQ/A-BORROW/A-HASH: the user Eq on K is an equivalence relation (axioms keq_refl, keq_sym -- it is NOT assumed to be spec equality: Eq-equal keys may be different values with different size estimates), keys matched by one borrowed query are equivalent (matches_unique), hashing is a deterministic function of the key (hash_of)'
A_SIZE = 'A-SIZE: estimates of simultaneously live values add up to <= usize::MAX (needed for entry_size additions and mutate pre-eviction additions)'
A_CAP = 'A-CAP: capacity() <= cap_limit() and 8*cap_limit() <= usize::MAX, where cap_limit() is the largest capacity hashbrown can size a table for without its capacity-overflow panic (bucket counts are monotone in the capacity, so any capacity up to that of an existing table qualifies); RawTable::with_capacity(n) requires n <= cap_limit() at every call (obligation for shrink_to, clone, the constructors); A-HB-CAP: cap_for(n) >= n and cap_for(n) < max(2n, 8) (axiom cap_for_bounds in l2; the same bounds are PROVED for hashbrown\'s own capacity_to_buckets / bucket_mask_to_capacity, extracted from the registry source, in template hbcap; assumed: with_capacity sizes tables with these two functions)'
A_ARITH = 'machine arithmetic: exact usize semantics in exec code (overflow obligations proved, not assumed); spec arithmetic is mathematical'
A_UNSAFE = 'unsafe code: all raw-pointer code is outside Verus; in Kani it is executed symbolically within the stated bounds'
A_MODEL = 'ptr_ent/at are uninterpreted functions of pointer values: sound while the designated entry is not modified and the table not reallocated between production and use (true in L2 by inspection; exercised by sub_* harnesses)'
A_NODE = 'A-NODE: the Verus proofs of retain and clone walk the list through the ghost address sequence table.nodes() and the assumed contract of LruCache::at (R11: stands for EntryPtr::get on a pointer of this cache): an entry keeps its address while it stays in an un-rebuilt table, prev/next of node i are nodes i+1 / i-1 with the seal closing the cycle, and a read through a reference obtained before a removal still yields the link stored then (retain reads entry.prev after remove_entry); these are checked only boundedly (Kani: coherent walker, addrs() comparison in sub_remove_entry, op_retain, op_clone)'
A_CLONE = 'user Clone on K, V, S: only vstd\'s `cloned(a, b)` relation is assumed of a clone; that a cloned key is Eq-equal to its original (needed for later lookups in the clone) is NOT assumed and not proved -- the clone\'s key set is decided by the bounded Kani harnesses only'
A_HEAP = 'A-HEAP (template l1): the memory model of the node heap -- Heap::{hget, hget_mut, hget_extended, alloc}: a write through a node pointer changes the Entry stored at that address and nothing else, distinct addresses do not alias, alloc returns an address not in use; node pointers compare equal exactly when they are the same address (EntryPtr::eq); addresses never leave the heap domain (liveness of buckets is not modelled: dangling accesses are Kani\'s pointer checks); hashbrown\'s drain / clear_no_drop / RawDrain::next write to no node (A-HB).  Rewrites R13-R16 put the extracted bodies into heap-passing form (logged per site).  A write that stores the value already there is invisible to a functional heap (C19: such writes are caught only by the Kani frame contracts)'
A_KBOUND = 'Kani bounds: <= 3 entries, table capacity <= 4 (MAXCAP), unwind 6-7, one L1 function or one V-unreachable operation per harness; u8 keys; identity or constant hasher'

PROPS = {
    'C01': dict(
        title='memory bound', level='proof', templates=['l2'],
        k_quick=['q_op_clear', 'q_op_retain', 'q_op_clone', 'q_drain'],
        k_thorough=['t_op_clear', 't_op_retain', 't_op_clone', 't_drain'] + SUB_T,
        assumptions=[A_SUB, A_HB, A_DOUBLE, A_PURE, A_SIZE, A_ARITH, A_UNSAFE, A_KBOUND],
        design='DESIGN.md §5 C01'),
    'C02': dict(
        title='exact accounting', level='proof', templates=['l2', 'l1'],
        k_quick=['q_op_clear', 'q_op_retain', 'q_op_clone', 'q_drain', 'q_sub_realloc_grow', 'q_sub_remove_entry', 'q_forget_drain'],
        k_thorough=['t_op_clear', 't_op_retain', 't_op_clone', 't_drain', 't_sub_realloc', 't_sub_remove_entry', 't_op_clone_diverge_touch', 't_op_clone_diverge_clear', 't_op_clone_diverge_retain', 't_framec_remove'],
        assumptions=[A_HEAP, A_SUB, A_HB, A_DOUBLE, A_PURE, A_SIZE, A_ARITH, A_UNSAFE, A_KBOUND],
        design='DESIGN.md §5 C02'),
    'C03': dict(
        title='LRU-first minimal eviction', level='proof', templates=['l2'],
        k_quick=['q_op_retain', 'q_op_clone', 'q_sub_lru_mru_ptr', 'q_sub_remove_entry'],
        k_thorough=['t_op_retain', 't_op_clone', 't_sub_lru_mru_ptr', 't_sub_remove_entry', 't_sub_realloc'],
        assumptions=[A_SUB, A_HB, A_DOUBLE, A_PURE, A_ARITH, A_KBOUND],
        design='DESIGN.md §5 C03'),
    'C04': dict(
        title='faithful map', level='proof', templates=['l2'],
        k_quick=['q_sub_get_from_table', 'q_sub_remove_entry', 'q_sub_realloc_grow', 'q_sub_realloc_shrink', 'q_sub_collide', 'q_op_clone_collide', 'q_sub_insert_set_head', 'q_sub_split_hasher'],
        k_thorough=SUB_T + ['q_sub_collide'],
        assumptions=[A_SUB, A_HB, A_DOUBLE, A_EQ, A_MODEL, A_KBOUND,
                     'hashbrown probing under collisions is not decided (A-HB is a dependency contract)'],
        design='DESIGN.md §5 C04'),
    'C05': dict(
        title='recency order', level='proof', templates=['l2', 'iter', 'l1'],
        k_quick=['q_sub_touch_ptr', 'q_sub_touch_ptr_only', 'q_sub_insert_set_head', 'q_sub_lru_mru_ptr', 'q_sub_realloc_grow',
                 'q_op_clone', 'q_op_retain', 'q_op_ends', 'q_iter_link', 'q_it_iter'],
        k_thorough=SUB_T + ['t_op_clone', 't_op_retain', 't_iter_link', 't_it_borrowing', 't_frame_debug', 't_framec_touch', 't_framec_get_lru'],
        assumptions=[A_HEAP, A_SUB, A_HB, A_DOUBLE, A_EQ, A_MODEL, A_KBOUND,
                     '&self operations cannot change the abstract table value in Verus; that they do not write is C19 (Kani, bounded)'],
        design='DESIGN.md §5 C05'),
    'C06': dict(
        title='drop / hand back exactly once', level='model_checking', templates=['l2', 'iter', 'l1'],
        k_quick=['q_ledger_remove', 'q_ledger_retain', 'q_ledger_clear_drop', 'q_ledger_clear_mixed', 'q_ledger_realloc', 'q_ledger_clone',
                 'q_ledger_drain', 'q_ledger_into_iter', 'q_ledger_owning_mixed', 'q_forget_drain'],
        k_thorough=[],
        assumptions=[A_HEAP, A_DOUBLE, A_HB, A_UNSAFE, A_KBOUND,
                     'composite L2 operations: Verus shows every departing entry passes through remove_metadata and is then returned or dropped by safe code (clauses tagged C06); exactly-once for safe code is rustc ownership'],
        design='DESIGN.md §5 C06'),
    'C07': dict(
        title='list/table coherence and memory safety', level='model_checking', templates=['l2', 'l1'],
        k_quick=SUB_Q + ['q_op_clear', 'q_op_retain', 'q_op_clone', 'q_op_ends', 'q_drain', 'q_drain_small', 'q_iter_link', 'q_sub_collide', 'q_forget_drain', 'q_cb_try_reallocate', 'q_cb_remove_ends', 'q_cb_lookup_remove'],
        k_thorough=SUB_T + ['t_op_clear', 't_op_retain', 't_op_clone', 't_drain', 't_iter_link', 't_op_clone_diverge_touch', 't_op_clone_diverge_clear', 't_op_clone_diverge_retain'],
        assumptions=[A_HEAP, A_DOUBLE, A_HB, A_UNSAFE, A_KBOUND,
                     'caches with thousands of entries are not reached; composite public operations are covered through V (acct after each of them) over these L1 contracts',
                     'retain reads entry.prev from a bucket whose Entry was just moved out (bitwise intact); neither CBMC nor Miri flags it'],
        design='DESIGN.md §5 C07'),
    'C08': dict(
        title='size estimation compositional / bulk helpers / total', level='model_checking', templates=['memsize'],
        k_quick=['q_ms_compose_scalar', 'q_ms_vec_string', 'q_ms_bulk_tuple_box', 'q_ms_array_flat', 'q_ms_wrappers', 'q_ms_seq_option_result', 'q_ms_any_hint', 'q_ms_user_nodrop'],
        k_thorough=['t_ms_nested'],
        assumptions=['shapes outside the listed harnesses are not covered', 'stack depth is decided only through the non-recursion obligation of SizedArrayFlatIterator::next (Verus termination checker)',
                     'A-STD: std containers report capacity()/len() truthfully'],
        design='DESIGN.md §5 C08'),
    'C09': dict(
        title='heap_size = allocator bytes (relative to std capacity contracts)', level='model_checking', templates=['memsize'],
        k_quick=['q_ms_alloc_string', 'q_ms_alloc_vec', 'q_ms_alloc_pathbuf', 'q_ms_alloc_box', 'q_ms_alloc_nested', 'q_ms_alloc_binheap', 'q_ms_vec_string', 'q_ms_wrappers', 'q_ms_bulk_tuple_box', 'q_ms_seq_option_result'],
        k_thorough=['t_ms_alloc_osstring_cstring', 't_ms_nested'],
        assumptions=['A-STD: a Vec/BinaryHeap holds capacity()*size_of::<T>() bytes, String/OsString/PathBuf hold capacity() bytes, Box<T> holds size_of_val; the link to real allocator bytes is NOT checked by this technique'],
        design='DESIGN.md §5 C09'),
    'C10': dict(
        title='rejected insertions', level='proof', templates=['l2'], k_quick=[], k_thorough=[],
        assumptions=[A_SUB, A_HB, A_PURE, A_EQ, A_ARITH],
        design='DESIGN.md §5 C10'),
    'C11': dict(
        title='mutate', level='proof', templates=['l2'],
        k_quick=['q_sub_get_from_table', 'q_sub_touch_ptr'], k_thorough=['t_sub_get_from_table', 't_sub_touch_ptr'],
        assumptions=[A_SUB, A_HB, A_DOUBLE, A_PURE, A_EQ, A_SIZE, A_ARITH, A_MODEL, A_KBOUND],
        design='DESIGN.md §5 C11'),
    'C12': dict(
        title='iterators', level='proof', templates=['iter', 'l1'],
        k_quick=['q_iter_link', 'q_it_iter', 'q_it_keys_values', 'q_it_empty_single', 'q_drain', 'q_drain_small', 'q_it_into_iter', 'q_it_into_keys_values', 'q_ledger_into_iter', 'q_ledger_owning_mixed'],
        k_thorough=['t_iter_link', 't_it_borrowing', 't_drain', 't_it_owning'],
        assumptions=[A_HEAP, A_SUB, A_DOUBLE, A_UNSAFE, A_KBOUND,
                     'snap()/at() heap snapshot: the link structure is immutable while an iterator runs; that the real links satisfy linked() is Kani harness iter_link (bounded)',
                     'Drain::drop / IntoIter::drop: Verus proves (R12) that they drain every entry not yet yielded and leave the table cleared; Drain::new: Verus proves that it leaves the cache listing nothing (current_size 0, table cleared) while the cursor covers every entry; the seal reset is raw-pointer code: bounded harnesses q_drain, q_ledger_*, q_forget_*'],
        design='DESIGN.md §5 C12'),
    'C13': dict(
        title='capacity management', level='proof', templates=['l2', 'hbcap'],
        k_quick=['q_sub_realloc_fail', 'q_sub_realloc_grow', 'q_sub_realloc_shrink'],
        k_thorough=['t_sub_realloc', 't_sub_realloc_fail', 't_sub_shrink_to'],
        assumptions=[A_SUB, A_HB, A_DOUBLE, A_CAP, A_ARITH, A_KBOUND,
                     'with_capacity(n) takes n insertions without capacity change: proved as the per-call clause "capacity() > len() ==> a successful fresh insertion leaves capacity() unchanged" (insert, try_insert) plus with_capacity_and_hasher: capacity() >= n; it rests on the hashbrown fact capacity() = items + growth_left (axiom table_cap_bounds: !has_room ==> cap == len)',
                     'whole-history growth bound is the inductive consequence of the per-call clause cap_after_growth < max(4*len, 8)'],
        design='DESIGN.md §5 C13'),
    'C14': dict(
        title='clone', level='proof', templates=['l2', 'l1'],
        level_extra='Scope of the proof for C14: the copy itself (length, order, recorded sizes, current_size, max_size, capacity, every key/value a clone of its counterpart).  Independence of source and clone under later operations, Entry::clone, and the Eq-equality of cloned keys are decided only boundedly (Kani).',
        k_quick=['q_op_clone', 'q_op_clone_small', 'q_op_clone_collide', 'q_op_clone_diverge_remove', 'q_op_clone_diverge_realloc', 'q_ledger_clone'],
        k_thorough=['t_op_clone', 't_op_clone_diverge_touch', 't_op_clone_diverge_clear', 't_op_clone_diverge_retain'],
        assumptions=[A_HEAP, A_SUB, A_NODE, A_CLONE, A_DOUBLE, A_HB, A_UNSAFE, A_KBOUND,
                     'proved (Verus, unbounded, over A-SUB/A-NODE): same length, order, per-entry sizes, current_size, max_size, capacity >= source, every key/value a clone of the one at the same position, source untouched by type (&self); independence of later operations and Entry::clone itself: bounded Kani harnesses only'],
        design='DESIGN.md §5 C14'),
    'C15': dict(
        title='retain', level='proof', templates=['l2', 'l1'],
        level_extra='Scope of the proof for C15: the state effect (exactly the rejected entries are gone, survivors keep their order, accounting).  The invocation sequence of the predicate (exactly once per entry, LRU->MRU) and the drops of rejected pairs are decided only boundedly (Kani).',
        k_quick=['q_op_retain', 'q_op_retain_small', 'q_ledger_retain'],
        k_thorough=['t_op_retain'],
        assumptions=[A_HEAP, A_SUB, A_NODE, A_EQ, A_DOUBLE, A_HB, A_UNSAFE, A_KBOUND,
                     'proved (Verus, unbounded, over A-SUB/A-NODE): there is one predicate result per original entry, taken on that entry\'s own key and value, such that the final list is exactly the accepted entries in their original order; acct (current_size = sum of recorded sizes, distinct keys) and exactness are preserved.  That the predicate is invoked exactly once per entry and in LRU->MRU order is visible in the verified loop structure but is not a stated obligation (Verus has no call log for FnMut): bounded Kani harnesses op_retain / ledger_retain decide it'],
        design='DESIGN.md §5 C15'),
    'C16': dict(
        title='panic safety (call-back-point invariant)', level='model_checking', templates=['l2', 'l1'],
        k_quick=['q_cb_try_reallocate', 'q_cb_lookup_remove', 'q_cb_remove_ends', 'q_cb_clone', 'q_cb_retain', 'q_cb_insert_untracked'],
        k_thorough=[],
        assumptions=[A_HEAP, A_DOUBLE, A_HB, A_UNSAFE, A_KBOUND,
                     'neither tool executes unwinding: the property is decided as "psafe holds at every call-back point"; the unwind path itself (destructors of locals) is argued by hand',
                     'call-backs of the composite L2 operations (insert, try_insert, mutate) precede any modification: shown by the order of calls in the Verus-verified bodies, not by a separate obligation'],
        design='DESIGN.md §5 C16'),
    'C17': dict(
        title='leaked iterators', level='model_checking', templates=['iter', 'l1'],
        k_quick=['q_forget_drain', 'q_forget_drain_first', 'q_forget_owning', 'q_forget_borrowing', 'q_forget_mixed'],
        k_thorough=[],
        assumptions=[A_HEAP, A_DOUBLE, A_HB, A_UNSAFE, A_KBOUND], design='DESIGN.md §5 C17'),
    'C19': dict(
        title='&self operations never write', level='model_checking', templates=['l1'],
        k_quick=['q_frame_lookups', 'q_frame_lookups_small', 'q_it_iter', 'q_it_keys_values', 'q_op_clone',
                 # frame contracts with an empty modifies clause: CBMC checks every write instruction, so a write that restores the old value is still a write
                 't_framec_peek', 't_framec_peek_entry', 't_framec_contains', 't_framec_peek_ends', 't_framec_iter', 't_framec_scalars'],
        k_thorough=['t_frame_lookups', 't_it_borrowing', 't_op_clone', 't_frame_debug', 't_framec_peek', 't_framec_peek_entry',
                    't_framec_contains', 't_framec_peek_ends', 't_framec_iter', 't_framec_scalars'],
        assumptions=[A_HEAP, A_DOUBLE, A_HB, A_UNSAFE, A_KBOUND, 'the data-race clause follows by the property\'s own implication; no schedule is explored'],
        design='DESIGN.md §5 C19'),
    'C20': dict(
        title='hashing work bounded', level='model_checking', templates=['l2'],
        k_quick=['q_hash_count_lookups', 'q_hash_count_zero', 'q_hash_count_scalars', 'q_hash_count_remove_ends', 'q_hash_count_evict_many', 'q_hash_count_rebuild', 'q_hash_count_retain'],
        k_thorough=['t_hash_count_set_max_size', 't_hash_count_mutate'],
        assumptions=[A_DOUBLE, A_HB, A_KBOUND, A_SUB, 'hash counts are checked by Kani on L1 functions and V-unreachable operations only (n <= 3); for the composite L2 operations Verus proves the number of table rebuilds per call (ghost counter table.gen(): 0 for lookups, promotions, removals, evictions, mutate, set_max_size; <= 1 for reserve/try_reserve/shrink*; exactly 1 for an insertion iff the table refused), and the hash-routing preconditions; the composite Kani count harnesses t_hash_count_insert / t_hash_count_try_insert do not terminate within memory and are not part of any tier', 'independence of the cache size is established only in that form (rebuild count per call is size-independent; per-rebuild and per-departure hashing is bounded by Kani for n <= 3)'],
        design='DESIGN.md §5 C20'),
}

NOT_APPLICABLE = {
    'C18': 'Send/Sync auto-trait derivation, negative reasoning ("is not Send") and borrow-checker rejection are decided by rustc at compile time; no Verus or Kani contract can state "this program must not compile", and Kani has no threads',
}
