"""Engine K: run Kani harnesses (bounded) on a scratch copy of /repo's working tree."""
import concurrent.futures
import os
import re
import shutil
import subprocess
import time

VERIF = os.path.dirname(os.path.dirname(os.path.abspath(__file__)))
WORK = os.path.join(VERIF, '.work')
SCRATCH_ROOT = os.environ.get('VERIF_SCRATCH', '/var/tmp')


def scratch_copy(repo):
    d = os.path.join(SCRATCH_ROOT, 'lruverif-k-%d' % os.getpid())
    if os.path.exists(d):
        shutil.rmtree(d)
    os.makedirs(d)
    for name in os.listdir(repo):
        if name in ('target', '.git'):
            continue
        src = os.path.join(repo, name)
        if os.path.isdir(src):
            shutil.copytree(src, os.path.join(d, name))
        else:
            shutil.copy2(src, os.path.join(d, name))
    # cargo decides freshness by comparing source mtimes (relative to the package root) with the mtime of the
    # previous build's dep-info in the target directory.  The target directories persist between runs while the
    # scratch path changes, so a copy that preserved the (old) mtimes of /repo would be taken for unchanged and a
    # stale artifact of a previous, different tree would be verified.  Every copied file gets mtime = now.
    now = time.time()
    for root, _dirs, files in os.walk(d):
        for fn in files:
            try:
                os.utime(os.path.join(root, fn), (now, now))
            except OSError:
                pass
    os.makedirs(os.path.join(d, '.cargo'), exist_ok=True)
    with open(os.path.join(d, '.cargo', 'config.toml'), 'w') as f:
        f.write('[net]\noffline = true\n')
    return d


def hook_present(repo):
    try:
        s = open(os.path.join(repo, 'src', 'lib.rs')).read()
    except OSError:
        return False
    return 'verif_hooks' in s and 'cfg(kani)' in s


FAILED_RE = re.compile(r'Failed Checks: (.*?)\n\s*File: "([^"]*)", line (\d+), in (\S+)', re.S)


NSLOTS = 16


def acquire_slot():
    """A Kani target directory must never be used by two cargo invocations on different source trees at
    the same time (the goto binaries have the same file names and would overwrite each other), so every
    slot is protected by an flock that is held for the whole `cargo kani` run -- also across processes."""
    import fcntl
    base = os.path.join(WORK, 'ktarget')
    os.makedirs(base, exist_ok=True)
    waited = 0
    while True:
        # CBMC needs 1-10 GB per harness: do not start another one while memory is short (avoids OOM kills,
        # which would end a harness without a verdict)
        if mem_available_gb() < 8 and waited < 900:
            time.sleep(5)
            waited += 5
            continue
        for i in range(NSLOTS):
            f = open(os.path.join(base, 'slot%d.lock' % i), 'w')
            try:
                fcntl.flock(f, fcntl.LOCK_EX | fcntl.LOCK_NB)
                return i, f
            except OSError:
                f.close()
        time.sleep(1.0)


def mem_available_gb():
    try:
        for ln in open('/proc/meminfo'):
            if ln.startswith('MemAvailable:'):
                return int(ln.split()[1]) / 1048576.0
    except OSError:
        pass
    return 64.0


def release_slot(f):
    import fcntl
    try:
        fcntl.flock(f, fcntl.LOCK_UN)
    finally:
        f.close()


def group_of(harness):
    import klist
    for f, h in klist.all_harnesses():
        if h == harness:
            return f
    return None


def qualified(harness):
    g = group_of(harness)
    return 'verif_hooks::harness::%s::%s' % (g, harness) if g else harness


def run_one(scratch, harness, slot, timeout, extra_args=(), keep_output=False):
    group = group_of(harness) or 'none'
    tdir = os.path.join(WORK, 'ktarget', 'slot%d' % slot, group)
    os.makedirs(tdir, exist_ok=True)
    cmd = ['cargo', 'kani', '-Z', 'function-contracts', '--harness', qualified(harness), '--exact', '--output-format', 'terse',
           '--target-dir', tdir] + list(extra_args)
    env = dict(os.environ)
    env['CARGO_NET_OFFLINE'] = 'true'
    # only the harness file this harness lives in is compiled (cfg verif_g_<file>)
    env['RUSTFLAGS'] = (env.get('RUSTFLAGS', '') + ' --cfg verif_g_%s' % group).strip()
    t0 = time.time()
    import signal
    proc = subprocess.Popen(cmd, cwd=scratch, env=env, stdout=subprocess.PIPE, stderr=subprocess.STDOUT,
                            text=True, start_new_session=True)
    try:
        out, _ = proc.communicate(timeout=timeout)
        rc = proc.returncode
        timed_out = False
    except subprocess.TimeoutExpired:
        try:
            os.killpg(proc.pid, signal.SIGKILL)
        except OSError:
            pass
        out, _ = proc.communicate()
        out = out or ''
        rc = -1
        timed_out = True
    wall = time.time() - t0
    res = {'harness': harness, 'cmd': ' '.join(cmd), 'wall_s': round(wall, 1), 'rc': rc}
    vt = re.search(r'Verification Time: ([0-9.]+)s', out)
    res['cbmc_s'] = float(vt.group(1)) if vt else None
    mt = re.search(r'\*\* (\d+) of (\d+) failed(?: \((\d+) unreachable\))?', out)
    if mt:
        res['checks_total'] = int(mt.group(2))
        res['checks_failed'] = int(mt.group(1))
        res['checks_unreachable'] = int(mt.group(3) or 0)
    failed = [{'description': norm(a), 'file': b, 'line': int(c), 'function': d} for a, b, c, d in FAILED_RE.findall(out)]
    res['failed_checks'] = failed
    if timed_out:
        res['status'] = 'undecided'
        res['reason'] = 'timeout after %ds' % timeout
    elif 'VERIFICATION:- SUCCESSFUL' in out and re.search(r'1 successfully verified harnesses, 0 failures, 1 total', out):
        res['status'] = 'ok'
    elif 'CBMC failed' in out or 'run out of memory' in out or 'CBMC timed out' in out:
        # the back end died (memory, crash): no verdict, never an alarm
        res['status'] = 'undecided'
        res['reason'] = 'CBMC did not finish (out of memory / crash)'
    elif 'VERIFICATION:- FAILED' in out and not failed:
        res['status'] = 'undecided'
        res['reason'] = 'Kani reported failure without naming a failed check'
    elif 'VERIFICATION:- FAILED' in out:
        real = [f for f in failed if not f['description'].startswith('unwinding assertion')]
        unsupported = [f for f in failed if 'is not currently supported by Kani' in f['description'] or 'unsupported' in f['description'].lower()]
        if failed and not real:
            res['status'] = 'undecided'
            res['reason'] = 'unwinding assertion failed (bound too small for this code)'
        elif unsupported and len(unsupported) == len(real):
            res['status'] = 'undecided'
            res['reason'] = 'construct unsupported by Kani: ' + unsupported[0]['description']
        else:
            res['status'] = 'failed'
    else:
        res['status'] = 'undecided'
        tail = out[-1500:]
        if 'no harnesses matched' in out.lower() or '0 total' in out:
            res['reason'] = 'harness not found / not compiled'
        elif 'error' in out:
            res['reason'] = 'build or tool error'
        else:
            res['reason'] = 'no verdict from Kani'
        res['output_tail'] = tail
    if res['status'] != 'ok':
        res['output_tail'] = out[-3000:]
    if keep_output:
        res['full_output'] = out
    return res


def norm(s):
    return re.sub(r'\s+', ' ', s).strip()


def run_harnesses(repo, harnesses, jobs=8, timeout=900, extra_args=(), playback=True, playback_budget=600):
    """harnesses: list of names.  Returns (results, meta)."""
    meta = {'scratch': None}
    if not harnesses:
        return [], meta
    if not hook_present(repo):
        return [{'harness': h, 'status': 'undecided', 'reason': 'verification hook (cfg(kani)) not present in src/lib.rs',
                 'failed_checks': [], 'wall_s': 0} for h in harnesses], meta
    scratch = scratch_copy(repo)
    meta['scratch'] = scratch
    results = []
    played = {}
    try:
        with concurrent.futures.ThreadPoolExecutor(max_workers=jobs) as ex:
            def work(h):
                slot, lock = acquire_slot()
                try:
                    r = run_one(scratch, h, slot, timeout, extra_args)
                    if r['status'] == 'failed' and playback and not played.get('done'):
                        # Kani's counterexample: the concrete values of every kani::any() of the harness.  One
                        # counterexample per check run is enough (the first failing harness to get here), and the
                        # second CBMC run is bounded so that a violation is reported promptly.
                        played['done'] = True
                        budget = int(min(playback_budget, max(120, 4 * (r.get('cbmc_s') or 60))))
                        r2 = run_one(scratch, h, slot, budget, list(extra_args) + ['-Z', 'concrete-playback', '--concrete-playback=print'], keep_output=True)
                        mt = re.search(r'Concrete playback unit test.*?```(.*?)```', r2.get('full_output', ''), re.S)
                        r['concrete_playback'] = mt.group(1).strip() if mt else None
                    return r
                finally:
                    release_slot(lock)
            for r in ex.map(work, list(harnesses)):
                results.append(r)
    finally:
        shutil.rmtree(scratch, ignore_errors=True)
    return results, meta
