"""Brace/string/comment-aware scanner for Rust source text (no line numbers are ever used as keys).

mask(src)     -> same-length text where comments, string/char literal *contents* are blanked
Items(src)    -> top-level impl blocks, free fns, structs/enums (test modules skipped)
"""
import hashlib
import re


class ExtractError(Exception):
    """The mechanical extraction could not be carried out (lost function, lost anchor, ...).
    Always mapped to 'undecided' (exit 2), never to a violation."""


def mask(src):
    out = list(src)
    i, n = 0, len(src)

    def blank(a, b):
        for j in range(a, b):
            if out[j] != '\n':
                out[j] = ' '

    while i < n:
        c = src[i]
        if src.startswith('//', i):
            j = src.find('\n', i)
            j = n if j < 0 else j
            blank(i, j)
            i = j
        elif src.startswith('/*', i):
            depth, j = 1, i + 2
            while j < n and depth:
                if src.startswith('/*', j):
                    depth += 1
                    j += 2
                elif src.startswith('*/', j):
                    depth -= 1
                    j += 2
                else:
                    j += 1
            blank(i, j)
            i = j
        elif c == '"' or (c in 'br' and re.match(r'(b?r#*"|b")', src[i:i + 8]) and not (i and (src[i - 1].isalnum() or src[i - 1] == '_'))):
            m = re.match(r'b?r(#*)"', src[i:])
            if m:
                hashes = m.group(1)
                start = i + m.end()
                end = src.find('"' + hashes, start)
                end = n if end < 0 else end
                blank(start, end)
                i = end + 1 + len(hashes)
            else:
                j = i + (2 if c == 'b' else 1)
                start = j
                while j < n and src[j] != '"':
                    j += 2 if src[j] == '\\' else 1
                blank(start, j)
                i = j + 1
        elif c == "'":
            # char literal or lifetime
            m = re.match(r"'(\\.[^']*|[^\\'])'", src[i:])
            if m:
                blank(i + 1, i + m.end() - 1)
                i += m.end()
            else:
                i += 1
        else:
            i += 1
    return ''.join(out)


OPEN = {'(': ')', '[': ']', '{': '}'}
CLOSE = {v: k for k, v in OPEN.items()}


def match_close(m, i):
    """m: masked text, i: index of an opening bracket; returns index of its closing bracket."""
    depth = 0
    o = m[i]
    c = OPEN[o]
    for j in range(i, len(m)):
        if m[j] == o:
            depth += 1
        elif m[j] == c:
            depth -= 1
            if depth == 0:
                return j
    raise ExtractError('unbalanced %r at offset %d' % (o, i))


def match_open(m, j):
    c = m[j]
    o = CLOSE[c]
    depth = 0
    for i in range(j, -1, -1):
        if m[i] == c:
            depth += 1
        elif m[i] == o:
            depth -= 1
            if depth == 0:
                return i
    raise ExtractError('unbalanced %r at offset %d' % (c, j))


def skip_generics(m, i):
    """i at '<' ; returns index after matching '>' (handles '->' inside Fn bounds)."""
    depth = 0
    j = i
    while j < len(m):
        ch = m[j]
        if ch == '<':
            depth += 1
        elif ch == '>' and m[j - 1] != '-':
            depth -= 1
            if depth == 0:
                return j + 1
        elif ch in '([':
            j = match_close(m, j)
        j += 1
    raise ExtractError('unbalanced generics')


def norm(s):
    return re.sub(r'\s+', ' ', s).strip()


def strip_attrs_docs(text):
    """drop doc comments, ordinary comments on their own line are kept; drop #[...] attribute lines"""
    lines = []
    for ln in text.split('\n'):
        s = ln.strip()
        if s.startswith('///') or s.startswith('//!'):
            continue
        if re.match(r'#\[[^\]]*\]$', s):
            continue
        lines.append(ln)
    return '\n'.join(lines)


class Fn:
    def __init__(self, file, impl_header, name, src, start, sig_end, body_open, body_close):
        self.file = file
        self.impl_header = impl_header
        self.name = name
        self.start = start              # offset of first token of the signature (vis / unsafe / fn)
        self.sig = src[start:body_open]  # up to, not including, '{'
        self.body = src[body_open + 1:body_close]   # between the braces
        self.text = src[start:body_close + 1]
        self.sha256 = hashlib.sha256(self.text.encode()).hexdigest()
        self.line = src.count('\n', 0, start) + 1


class Source:
    def __init__(self, path, relname):
        self.path = path
        self.rel = relname
        self.src = open(path).read()
        self.m = mask(self.src)
        self.items = []    # (kind, header, open, close)
        self._scan()

    def _scan(self):
        m = self.m
        i, n = 0, len(m)
        depth0_re = re.compile(r'\b(impl|fn|struct|enum|mod|trait|macro_rules)\b')
        while i < n:
            mt = depth0_re.search(m, i)
            if not mt:
                break
            kw = mt.group(1)
            # must be at brace depth 0: we maintain that by always jumping over bodies
            j = mt.start()
            # find the '{' or ';' that ends the header
            k = j
            while k < n and m[k] not in '{;':
                if m[k] in '([':
                    k = match_close(m, k)
                k += 1
            if k >= n:
                break
            if m[k] == ';':
                i = k + 1
                continue
            close = match_close(m, k)
            header = norm(m[j:k])
            # include leading visibility / unsafe
            st = j
            pre = re.search(r'((pub(\s*\([^)]*\))?\s+)?(unsafe\s+)?)$', m[:j])
            if pre:
                st = pre.start()
            self.items.append((kw, header, st, k, close))
            i = close + 1

    def impls(self):
        return [it for it in self.items if it[0] == 'impl']

    def find_fn(self, impl_sel, name):
        """impl_sel: regex searched in the normalised impl header ('' = free function)."""
        src, m = self.src, self.m
        cands = []
        if impl_sel == '':
            for kw, header, st, op, cl in self.items:
                if kw == 'fn' and re.match(r'fn\s+%s\b' % re.escape(name), header):
                    cands.append(('', st, op, cl))
        else:
            for kw, header, st, op, cl in self.impls():
                if not re.search(impl_sel, header):
                    continue
                # scan the impl body for fns at depth 1
                i = op + 1
                fn_re = re.compile(r'\bfn\s+(\w+)')
                while i < cl:
                    mt = fn_re.search(m, i, cl)
                    if not mt:
                        break
                    k = mt.end()
                    while k < cl and m[k] not in '{;':
                        if m[k] in '([':
                            k = match_close(m, k)
                        elif m[k] == '<':
                            k = skip_generics(m, k) - 1
                        k += 1
                    if m[k] == ';':
                        i = k + 1
                        continue
                    bclose = match_close(m, k)
                    if mt.group(1) == name:
                        pre = re.search(r'((pub(\s*\([^)]*\))?\s+)?(unsafe\s+)?)$', m[:mt.start()])
                        fst = pre.start() if pre else mt.start()
                        cands.append((header, fst, k, bclose))
                    i = bclose + 1
        if len(cands) != 1:
            raise ExtractError('function %s :: /%s/ :: %s: %d matches (need exactly 1)'
                               % (self.rel, impl_sel, name, len(cands)))
        header, st, op, cl = cands[0]
        return Fn(self.rel, header, name, src, st, op, op, cl)

    def find_type(self, name):
        for kw, header, st, op, cl in self.items:
            if kw in ('struct', 'enum') and re.match(r'(struct|enum)\s+%s\b' % re.escape(name), header):
                return kw, self.src[st:cl + 1]
        raise ExtractError('type %s not found in %s' % (name, self.rel))
