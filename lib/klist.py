"""list harness names found in /verif/hooks/harness/*.rs"""
import glob, os, re
def all_harnesses():
    out = []
    for f in sorted(glob.glob(os.path.join(os.path.dirname(os.path.dirname(os.path.abspath(__file__))), 'hooks', 'harness', '*.rs'))):
        s = open(f).read()
        for m in re.finditer(r'#\[kani::proof(?:_for_contract\([^)]*\))?\]\s*(?:#\[[^\]]*\]\s*)*fn\s+(\w+)', s):
            out.append((os.path.basename(f)[:-3], m.group(1)))
    return out
if __name__ == '__main__':
    for f, h in all_harnesses(): print(f, h)
