"""Framework self-test (thorough tier only, informational): the Verus part of a property's check is run on scratch
copies of /repo with (a) harmless refactorings applied -- every obligation must still be discharged -- and (b) the
kept seeded changes of that property and the hand-written self-test mutants applied -- at least one obligation tagged
with the property must fail.  Results go into the evidence; they never change the verdict on /repo."""
import glob
import json
import os
import shutil
import subprocess

import vengine

VERIF = os.path.dirname(os.path.dirname(os.path.abspath(__file__)))


def _copy(repo, dst):
    shutil.rmtree(dst, ignore_errors=True)
    os.makedirs(dst)
    for name in os.listdir(repo):
        if name in ('target', '.git'):
            continue
        src = os.path.join(repo, name)
        (shutil.copytree if os.path.isdir(src) else shutil.copy)(src, os.path.join(dst, name))


def _run(pid, templates, repo, patch, work):
    d = os.path.join(work, 'tree')
    _copy(repo, d)
    p = subprocess.run(['patch', '-p1', '-s', '-i', patch], cwd=d, stdout=subprocess.PIPE, stderr=subprocess.STDOUT, text=True)
    if p.returncode != 0:
        return {'applies': False}
    fails, undec = [], []
    for t in templates:
        r = vengine.run_template(t, os.path.join(d, 'src'), os.path.join(work, 'v'), canary=False)
        if r['status'] != 'ok':
            undec.append('%s: %s' % (t, r['reason']))
        fails += ['%s:%s:%s' % (t, f['function'], f['kind']) for f in r.get('failures', []) if pid in f['tags']]
    return {'applies': True, 'failed_obligations': fails, 'undecided': undec}


def run(pid, templates, repo, work):
    out = {'refactors': [], 'mutants': []}
    templates = [t for t in templates if t != 'hbcap']
    if not templates:
        return out
    for p in sorted(glob.glob(os.path.join(VERIF, 'tools', 'refactors', '*.diff'))):
        r = _run(pid, templates, repo, p, work)
        if r.get('applies'):
            out['refactors'].append({'patch': os.path.basename(p), 'still_verifies': not r['failed_obligations'] and not r['undecided'], **r})
    muts = sorted(glob.glob(os.path.join(VERIF, 'tools', 'selftest', pid + '_*.diff')))
    for m in sorted(glob.glob(os.path.join(VERIF, 'seeded', '*', 'meta.json'))):
        try:
            if json.load(open(m))['property'] == pid:
                muts.append(os.path.join(os.path.dirname(m), 'patch.diff'))
        except (ValueError, KeyError):
            pass
    for p in muts:
        r = _run(pid, templates, repo, p, work)
        if r.get('applies'):
            name = os.path.basename(os.path.dirname(p)) if p.endswith('patch.diff') else os.path.basename(p)
            out['mutants'].append({'patch': name, 'rejected_by_verus': bool(r['failed_obligations']), **r})
    shutil.rmtree(work, ignore_errors=True)
    return out
