"""Engine V: generate Verus files from /repo's working tree, run Verus, map results to obligations."""
import json
import os
import re
import subprocess
import time

import vgen
from rsrc import ExtractError

VERIF = os.path.dirname(os.path.dirname(os.path.abspath(__file__)))
TEMPLATES = {
    'l2': os.environ.get('VERIF_L2_TEMPLATE', os.path.join(VERIF, 'verus', 'l2.vt')),
    'iter': os.path.join(VERIF, 'verus', 'iter.vt'),
    'memsize': os.path.join(VERIF, 'verus', 'memsize.vt'),
    'hbcap': os.path.join(VERIF, 'verus', 'hbcap.vt'),
    'l1': os.path.join(VERIF, 'verus', 'l1.vt'),
}


def hashbrown_src(repo_src):
    """source directory of the hashbrown version pinned by /repo/Cargo.lock, in the offline cargo registry"""
    import glob
    lock = os.path.join(os.path.dirname(repo_src.rstrip('/')), 'Cargo.lock')
    ver = None
    try:
        txt = open(lock).read()
        mt = re.search(r'name = "hashbrown"\nversion = "([^"]+)"', txt)
        ver = mt.group(1) if mt else None
    except OSError:
        pass
    c = sorted(glob.glob(os.path.expanduser('~/.cargo/registry/src/*/hashbrown-%s/src' % (ver or '*'))))
    if not c:
        raise ExtractError('hashbrown source not found in the cargo registry')
    return c[-1]


SEMANTIC = [
    (r'postcondition not satisfied', 'postcondition'),
    (r'precondition not satisfied', 'precondition'),
    (r'invariant not satisfied', 'invariant'),
    (r'decreases not satisfied', 'decreases'),
    (r'assertion failed', 'assertion'),
    (r'possible arithmetic (underflow|overflow)', 'arithmetic'),
    (r'possible division by zero', 'arithmetic'),
    (r'unreachable', 'assertion'),
    (r'recursive function must have a decreases clause', 'recursion'),
    (r'loop must have a decreases clause', 'termination-annotation'),
]
IGNORE = [r'^aborting due to', r'^\d+ warnings? emitted']
TOOL_LIMIT = [r'[Rr]esource limit', r'rlimit', r'timed? ?out']


def classify(msg):
    for rx, k in SEMANTIC:
        if re.search(rx, msg):
            return k
    return None


def run_verus(path, workdir, rlimit=None, threads=8, extra=(), multiple_errors=5):
    cmd = ['verus', os.path.basename(path), '--output-json', '--time', '--multiple-errors', str(multiple_errors),
           '--triggers-mode', 'silent', '--error-format=json', '--num-threads', str(threads)] + list(extra)
    if rlimit:
        cmd += ['--rlimit', str(rlimit)]
    t0 = time.time()
    p = subprocess.run(cmd, cwd=workdir, stdout=subprocess.PIPE, stderr=subprocess.PIPE, text=True)
    wall = time.time() - t0
    diags = []
    for ln in p.stderr.split('\n'):
        ln = ln.strip()
        if ln.startswith('{'):
            try:
                diags.append(json.loads(ln))
            except ValueError:
                pass
    out = None
    try:
        out = json.loads(p.stdout)
    except ValueError:
        pass
    return {'cmd': ' '.join(cmd), 'rc': p.returncode, 'wall_s': wall, 'diags': diags, 'json': out,
            'stderr_tail': p.stderr[-4000:]}


def gen_line_info(gen, line):
    if 1 <= line <= len(gen.linemap):
        return gen.linemap[line - 1]
    return None


def prelude_tags(gen, line):
    """tags written as /*@Cxx*/ on a hand-written (prelude) line"""
    if 1 <= line <= len(gen.lines):
        mt = re.search(r'/\*@([^*]*)\*/', gen.lines[line - 1])
        if mt:
            return mt.group(1).split()
    return None


def analyse(gen, res, modname):
    """returns dict: status ok|undecided, failures [..], per-function stats"""
    failures, tool_errors = [], []
    for d in res['diags']:
        if d.get('level') != 'error':
            continue
        msg = d.get('message', '')
        if any(re.search(rx, msg) for rx in IGNORE):
            continue
        kind = classify(msg)
        spans = d.get('spans', [])
        if kind is None:
            te = {'message': msg, 'rendered': (d.get('rendered') or '')[:1500], 'fn': None}
            for sp in spans:
                info = gen_line_info(gen, sp['line_start'])
                if info and info.get('fn'):
                    te['fn'] = info['fn']
                    break
            tool_errors.append(te)
            continue
        primary = next((s for s in spans if s.get('is_primary')), spans[0] if spans else None)
        fn, tags, clause_line, clause_text = None, None, None, None
        # 1. the function in whose body/spec the failure was reported
        cand_lines = []
        for s in spans:
            cand_lines.append((s.get('label') or '', s['line_start'], s))
        # postcondition: label "failed this postcondition" names the clause; primary or other span is in the body
        for label, line, s in cand_lines:
            info = gen_line_info(gen, line)
            if info and info.get('fn') and fn is None and info['kind'] in ('body', 'sig', 'attr'):
                fn = info['fn']
        for label, line, s in cand_lines:
            info = gen_line_info(gen, line)
            if 'failed this postcondition' in label or 'failed precondition' in label or kind in ('invariant',):
                if info and info.get('kind') in ('ensures', 'requires', 'spec'):
                    tags = info['tags']
                    clause_line = line
                    if fn is None and 'postcondition' in label:
                        fn = info['fn']
                else:
                    pt = prelude_tags(gen, line)
                    if pt:
                        tags = pt
                        clause_line = line
                if clause_line:
                    clause_text = ' '.join(t['text'].strip() for t in s.get('text', []))[:300]
        if fn is None and primary is not None:
            info = gen_line_info(gen, primary['line_start'])
            if info:
                fn = info.get('fn')
            # loop invariants / hints are inside the body: tags may be on the line itself
        if kind in ('invariant', 'decreases', 'assertion', 'arithmetic', 'recursion') and primary is not None and tags is None:
            pt = prelude_tags(gen, primary['line_start'])
            if pt:
                tags = pt
        if tags is None:
            f = next((f for f in gen.functions if f['fn'] == fn), None)
            tags = list(f['tags']) if f else []
        if fn is None:
            # a failure inside hand-written lemmas/prelude: the framework itself is broken, not the code
            tool_errors.append({'message': 'verification failure outside extracted code: ' + msg,
                                'rendered': (d.get('rendered') or '')[:1500]})
            continue
        failures.append({'template': modname, 'function': fn, 'kind': kind, 'message': msg, 'tags': tags,
                         'clause': clause_text, 'clause_line': clause_line,
                         'rendered': (d.get('rendered') or '')[:3000]})
    # per-function timing
    stats = {}
    js = res.get('json') or {}
    try:
        for mod in js['times-ms']['smt']['smt-run-module-times']:
            for fb in mod.get('function-breakdown', []):
                name = fb['function'].split('::', 1)[1] if '::' in fb['function'] else fb['function']
                stats[name] = {'time_ms': fb['time'], 'rlimit': fb['rlimit'], 'success': fb['success'], 'mode': fb.get('mode:')}
    except (KeyError, TypeError):
        pass
    vr = (js.get('verification-results') or {})
    # With --multiple-errors Verus re-queries a function after its first failed obligation to look for more; those
    # extra queries may exhaust the resource limit.  A resource-limit message for a function that already has a
    # definite failed obligation adds nothing and must not turn the run into 'undecided'.
    failed_fns = {f['function'] for f in failures}
    limit_fns = sorted({t.get('fn') for t in tool_errors if t.get('fn') and any(re.search(rx, t['message']) for rx in TOOL_LIMIT)})
    tool_errors = [t for t in tool_errors
                   if not (any(re.search(rx, t['message']) for rx in TOOL_LIMIT) and t.get('fn') in failed_fns)]
    limit = [t for t in tool_errors if any(re.search(rx, t['message']) for rx in TOOL_LIMIT)]
    status = 'ok'
    reason = None
    if tool_errors:
        status = 'undecided'
        reason = tool_errors[0]['message']
    elif res['json'] is None:
        status = 'undecided'
        reason = 'verus produced no JSON result: ' + res['stderr_tail'][-500:]
    elif vr.get('encountered-vir-error') and not any(f['kind'] in ('recursion', 'termination-annotation') for f in failures):
        status = 'undecided'
        reason = 'verus front-end error'
    return {'status': status, 'reason': reason, 'failures': failures, 'tool_errors': tool_errors,
            'verified': vr.get('verified'), 'errors': vr.get('errors'), 'stats': stats,
            'smt_ms': ((js.get('times-ms') or {}).get('smt') or {}).get('total'),
            'verus_version': (js.get('verus') or {}).get('version'), 'limit_hits': len(limit), 'limit_fns': limit_fns}


def run_template(name, repo_src, workdir, canary=True, rlimit=None):
    """Generate + verify one template (and its canary twin)."""
    os.makedirs(workdir, exist_ok=True)
    out = {'template': name, 'status': 'ok', 'reason': None}
    t0 = time.time()
    try:
        if name == 'hbcap':
            repo_src = hashbrown_src(repo_src)
        gen = vgen.expand(TEMPLATES[name], repo_src, canary=False)
    except ExtractError as e:
        return {'template': name, 'status': 'undecided', 'reason': 'extraction: %s' % e, 'failures': [],
                'functions': [], 'externals': [], 'rewrites': [], 'clauses': [], 'notes': [], 'wall_s': time.time() - t0}
    path = os.path.join(workdir, 'gen_%s.rs' % name)
    open(path, 'w').write(gen.text())
    res = run_verus(path, workdir, rlimit)
    an = analyse(gen, res, name)
    # A query that exceeds the resource limit gives no verdict.  A *failing* proof sometimes does that instead of
    # failing cleanly, depending on solver heuristics.  Retry with other seeds and without the search for further
    # errors; a definite failed obligation found by any run is a definite failed obligation.
    if an['status'] == 'undecided' and an['limit_hits'] and len(an['tool_errors']) == an['limit_hits']:
        retries = []
        for seed in (1, 2, 3):
            res2 = run_verus(path, workdir, rlimit, extra=['--smt-option', 'smt.random_seed=%d' % seed, '--smt-option', 'sat.random_seed=%d' % seed], multiple_errors=1)
            an2 = analyse(gen, res2, name)
            retries.append({'seed': seed, 'status': an2['status'], 'failures': len(an2['failures'])})
            if an2['status'] == 'ok':
                an2['retries'] = retries
                an = an2
                res = res2
                break
        an.setdefault('retries', retries)
    out.update(an)
    out.update({'functions': gen.functions, 'externals': gen.externals, 'rewrites': gen.rewrites,
                'clauses': gen.clauses, 'notes': gen.notes, 'types': gen.types,
                'checker_cmd': res['cmd'], 'gen_path': path, 'verus_wall_s': res['wall_s']})
    # functions that failed while one of their hint anchors was lost are undecided, not violations
    lost = {n['function'] for n in gen.notes if 'lost_anchor' in n}
    for f in out['failures']:
        if f['function'] in lost:
            f['undecided'] = 'a proof hint lost its anchor in %s; failure cannot be attributed to the code' % f['function']
    # trusted-base scan
    txt = gen.text()
    out['trusted_scan'] = {
        'external_body': len(re.findall(r'external_body', txt)),
        'external_body_fns': sorted(set(re.findall(r'#\[verifier::external_body\]\s*(?:pub\s+)?(?:unsafe\s+)?fn\s+(\w+)', txt))),
        'assume_specification_fns': sorted(set(m_.strip() for m_ in re.findall(r'assume_specification(?:<[^>]*>)?\[\s*([^\]]+?)\s*\]', txt))),
        'axiom_fns': re.findall(r'\baxiom fn (\w+)', txt),
        'assume': len(re.findall(r'\bassume\s*\(', txt)),
        'admit': len(re.findall(r'\badmit\s*\(', txt)),
        'assume_specification': len(re.findall(r'assume_specification', txt)),
    }
    if canary and out['status'] == 'ok':
        try:
            cg = vgen.expand(TEMPLATES[name], repo_src, canary=True)
            cpath = os.path.join(workdir, 'canary_%s.rs' % name)
            open(cpath, 'w').write(cg.text())
            # the canary asks Z3 to prove `false`; where it cannot, a long search adds nothing: a contradiction among
            # requires / invariants / assumed contracts is found quickly, so the canary run gets a small resource limit
            # (a function that hits it has not proved false)
            cres = run_verus(cpath, workdir, 4 if rlimit else 1)     # thorough tier (rlimit given): a longer search for `false`
            failing = set()
            for d in cres['diags']:
                if d.get('level') != 'error':
                    continue
                if not re.search(r'assertion failed', d.get('message', '')):
                    continue
                for s in d.get('spans', []):
                    info = gen_line_info(cg, s['line_start'])
                    ltxt = cg.lines[s['line_start'] - 1] if 1 <= s['line_start'] <= len(cg.lines) else ''
                    ml = re.search(r'/\*canary-loop: (\S+) \*/', ltxt)
                    if ml:
                        failing.add(ml.group(1))
                    elif info and info.get('fn') and ('/*canary' in ltxt or info['fn'].startswith('canary:')):
                        failing.add(info['fn'])
            allf = [f['fn'] for f in cg.functions]
            # second source: Verus' own per-function verdict.  A function is vacuous only if Verus says it
            # verified although it contains `assert(false)`; a function that fails for any reason (assertion,
            # resource limit) is not a proof of false.
            can = analyse(cg, cres, name)
            def vac(fn):
                if fn in failing:
                    return False
                if '#loop' in fn:
                    # a loop-body canary has no verdict of its own (the enclosing function always fails at its exit
                    # canary): it counts as vacuous only if its assertion was not reported although Verus ran the
                    # enclosing function to the end (no resource-limit message for it)
                    encl = fn.split('#loop')[0]
                    inconclusive = encl in can.get('limit_fns', []) or any(t.get('fn') == encl for t in can.get('tool_errors', []))
                    return not inconclusive
                name2 = fn.replace('canary:', 'canary_')
                hits = [st for k, st in can['stats'].items() if k == name2 or k.endswith('::' + name2)]
                if not hits:
                    return True          # neither a failing assertion nor a verdict: treat as vacuous (undecided)
                return all(st['success'] for st in hits)
            vacuous = [f for f in allf if vac(f)]
            out['canary'] = {'functions': len(allf), 'failed_as_required': len(allf) - len(vacuous), 'vacuous': vacuous,
                             'wall_s': cres['wall_s']}
            if vacuous:
                out['status'] = 'undecided'
                out['reason'] = 'canary: `ensures false` verified for %s (contradictory assumptions)' % ', '.join(vacuous)
        except ExtractError as e:
            out['status'] = 'undecided'
            out['reason'] = 'canary extraction: %s' % e
    out['wall_s'] = time.time() - t0
    return out
