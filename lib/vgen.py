"""Generator: template (.vt) + functions extracted from /repo  ->  one Verus file + line map.

Template directives (lines starting with //@@):

  //@@ FN file=lib.rs impl=/regex/ name=insert [mode=inherent|trait|free] [tags=C01,C02] [ret=r] [attrs=...]
  //@@ SPEC            (requires/ensures text; clause tags as /*@C01 C02*/ at the start of a clause)
  //@@ PROLOGUE        (proof text placed at the top of the body)
  //@@ LOOP k          (invariant/decreases text for the k-th loop keyword of the body)
  //@@ HINT before|after /regex/ #k [|| before|after /regex/ #k ...]   (proof block at an anchored statement)
  //@@ END
  //@@ TYPE file=lib.rs name=LruCache [strip_default=1]
  //@@ EXTERNAL file=lib.rs impl=/regex/ name=set_head     (existence + hash of a function left to assumed contracts)

Everything else in the template is copied verbatim (hand-written prelude, lemmas, impl headers).
"""
import hashlib
import json
import os
import re
import sys

from rsrc import ExtractError, Source, mask, match_close, match_open, norm, strip_attrs_docs


# ----------------------------------------------------------------------------------------------
# expression helpers on masked text
# ----------------------------------------------------------------------------------------------

def receiver_start(m, dot):
    """m masked text, dot = index of the '.' (or '?') that follows a postfix expression.
    Walk backwards over a postfix chain: idents, '.', '::', balanced (), [], turbofish."""
    i = dot - 1
    while True:
        while i >= 0 and m[i] in ' \t\n':
            i -= 1
        if i < 0:
            break
        ch = m[i]
        if ch in ')]':
            i = match_open(m, i) - 1
            continue
        if ch == '>' and i > 0:
            # turbofish ::<...>
            depth, j = 0, i
            while j >= 0:
                if m[j] == '>' and m[j - 1] != '-':
                    depth += 1
                elif m[j] == '<':
                    depth -= 1
                    if depth == 0:
                        break
                j -= 1
            if j >= 2 and m[j - 2:j] == '::':
                i = j - 3
                continue
            break
        if ch.isalnum() or ch == '_':
            while i >= 0 and (m[i].isalnum() or m[i] == '_'):
                i -= 1
            continue
        if ch == '.':
            i -= 1
            continue
        if ch == ':' and i > 0 and m[i - 1] == ':':
            i -= 2
            continue
        break
    j = i + 1
    while m[j] in ' \t\n':
        j += 1
    # do not swallow a leading keyword such as `return` / `let` / `match` / `unsafe`
    kw = re.match(r'(return|let|match|if|in|unsafe|else|mut)\b\s*', m[j:])
    while kw:
        j += kw.end()
        kw = re.match(r'(return|let|match|if|in|unsafe|else|mut)\b\s*', m[j:])
    return j


def closure_end(m, start):
    """start = index of first char of a closure body (after the closing '|').
    Returns index one past the body when the closure is the last argument of a call:
    scan to the unmatched ')'."""
    depth = 0
    j = start
    while j < len(m):
        ch = m[j]
        if ch in '([{':
            j = match_close(m, j)
        elif ch == ')':
            return j
        j += 1
    raise ExtractError('closure end not found')


class Rewriter:
    def __init__(self, log, fname):
        self.log = log
        self.fname = fname

    def note(self, rule, what):
        self.log.append({'function': self.fname, 'rule': rule, 'site': norm(what)[:160]})

    def r3_from_mut(self, body):
        pat = re.compile(r'EntryPtr::new\(\s*(\w+)\s+as\s+\*mut\s+Entry<K,\s*V>\s*\)')

        def sub(mt):
            self.note('R3', mt.group(0))
            return 'EntryPtr::from_mut(%s)' % mt.group(1)
        return pat.sub(sub, body)

    def r2_map(self, body):
        """E.map(|pat| B)  =>  match E { Some(pat) => Some(B), None => None }   (Option::map inlined)"""
        while True:
            m = mask(body)
            mt = re.search(r'\.\s*map\s*\(\s*\|', m)
            if not mt:
                return body
            dot = mt.start()
            rs = receiver_start(m, dot)
            bar1 = mt.end() - 1
            bar2 = m.index('|', bar1 + 1)
            # a tuple pattern may contain no '|' so the next bar closes the parameter list
            pat = body[bar1 + 1:bar2].strip()
            bstart = bar2 + 1
            bend = closure_end(m, bstart)
            cbody = body[bstart:bend].strip()
            recv = body[rs:dot].rstrip()
            self.note('R2', body[rs:bend + 1])
            new = 'match %s { Some(%s) => Some(%s), None => None }' % (recv, pat, cbody)
            body = body[:rs] + new + body[bend + 1:]

    def r6_question(self, body, option=False):
        """E?  =>  match E { Ok(v) => v, Err(e) => return Err(From::from(e)) }   (rustc's desugaring;
        for Option: match E { Some(v) => v, None => return None })"""
        while True:
            m = mask(body).replace('?Sized', ' Sized')
            q = m.find('?')
            if q < 0:
                return body
            rs = receiver_start(m, q)
            recv = body[rs:q].rstrip()
            self.note('R6', body[rs:q + 1])
            if option:
                new = '(match %s { Some(v__) => v__, None => return None })' % recv
            else:
                new = '(match %s { Ok(v__) => v__, Err(e__) => return Err(From::from(e__)) })' % recv
            body = body[:rs] + new + body[q + 1:]


    def r13_heap(self, body, heapcalls, snapshot=False):
        """heap-passing form of the pointer layer (template l1).  The node memory that raw pointers address becomes an
        explicit object `heap`:
          R14  `let [mut] x = P.get_mut();`  =>  binding removed, every later `x` replaced by `P.get_mut()`
               (a second live `&mut` into the same heap object is what the borrow checker would refuse; the
               dereference is pure, so evaluating it at the use is the same access)
          R13  `P.get()` => `P.hget(heap)`, `P.get_mut()` => `P.hget_mut(heap)`, `P.get_extended()` => `P.hget_extended(heap)`
               and `heap` is appended to the arguments of the listed heap-mode callees
          R15  `Box::into_raw(Box::new(E))` => `heap.alloc(E)`"""
        while True:
            m = mask(body)
            mt = re.search(r'\blet\s+(?:mut\s+)?(\w+)\s*=\s*([\w\.]+?)\s*\.\s*get_mut\s*\(\s*\)\s*;[ \t]*\n?', m)
            if not mt:
                break
            name, recv = mt.group(1), body[mt.start(2):mt.end(2)]
            self.note('R14', body[mt.start():mt.end()])
            rest = body[mt.end():]
            rest = re.sub(r'(?<![\w\.])%s\b(?!\s*:)' % re.escape(name), recv + '.get_mut()', rest)
            body = body[:mt.start()] + rest
        def _alloc(mt):
            self.note('R15', mt.group(0))
            return 'heap.alloc(%s)' % mt.group(1)
        body = re.sub(r'Box::into_raw\(\s*Box::new\(\s*(\w+)\s*\)\s*\)', _alloc, body)
        for a, b in (('get_mut', 'hget_mut'), ('get_extended', 'hget_extended'), ('read', 'hread'), ('get', 'hget_snap' if snapshot else 'hget')):
            while True:
                m = mask(body)
                mt = re.search(r'\.\s*%s\s*\(\s*\)' % a, m)
                if not mt:
                    break
                self.note('R13', body[receiver_start(m, mt.start()):mt.end()])
                body = body[:mt.start()] + '.%s(heap)' % b + body[mt.end():]
        for name in heapcalls:
            # forms: `name` (any call .name( / ::name( ), `Type::name` (that path only), `name/N` (calls with exactly N arguments)
            arity = None
            if '/' in name:
                name, ar_ = name.split('/')
                arity = int(ar_)
            if '::' in name or '.' in name:
                rx = re.compile(r'\b%s\s*\(' % re.escape(name).replace('::', r'\s*::\s*').replace(r'\.', r'\s*\.\s*'))
            else:
                rx = re.compile(r'(?:\.|::)\s*%s\s*\(' % re.escape(name))
            pos = 0
            while True:
                m = mask(body)
                mt = rx.search(m, pos)
                if not mt:
                    break
                op = mt.end() - 1
                cl = match_close(m, op)
                inner = body[op + 1:cl].strip()
                if arity is not None:
                    n_, depth_ = (1 if inner else 0), 0
                    for ch_ in m[op + 1:cl]:
                        if ch_ in '([{':
                            depth_ += 1
                        elif ch_ in ')]}':
                            depth_ -= 1
                        elif ch_ == ',' and depth_ == 0:
                            n_ += 1
                    if n_ != arity:
                        pos = op + 1
                        continue
                if re.search(r'(^|,)\s*heap\s*$', m[op + 1:cl]):
                    pos = op + 1
                    continue
                self.note('R13', 'heap argument: ' + body[mt.start():cl + 1])
                new = body[op + 1:cl].rstrip()
                new = (new + ', heap') if inner else 'heap'
                body = body[:op + 1] + new + body[cl:]
                pos = op + 1
        return body


# ----------------------------------------------------------------------------------------------
# signature handling
# ----------------------------------------------------------------------------------------------

def split_sig(sig):
    """sig: text from visibility up to (not incl.) '{'.  Returns (quals, name_generics, params, ret, where)."""
    s = strip_attrs_docs(sig)
    m = mask(s)
    mt = re.search(r'\bfn\s+\w+', m)
    if not mt:
        raise ExtractError('no fn in signature: %r' % sig[:80])
    quals = s[:mt.start()]
    k = mt.end()
    if m[k:].lstrip().startswith('<'):
        k = m.index('<', k)
        from rsrc import skip_generics
        k = skip_generics(m, k)
    head = s[mt.start():k]
    p_open = m.index('(', k)
    p_close = match_close(m, p_open)
    params = s[p_open:p_close + 1]
    rest = s[p_close + 1:]
    rm = mask(rest)
    wm = re.search(r'\bwhere\b', rm)
    where = rest[wm.start():] if wm else ''
    retpart = rest[:wm.start()] if wm else rest
    rt = re.search(r'->\s*(.*)$', retpart.strip(), re.S)
    ret = rt.group(1).strip() if rt else ''
    return quals, head, params, ret, where.rstrip()


# ----------------------------------------------------------------------------------------------
# body insertion: loops and hints
# ----------------------------------------------------------------------------------------------

def loop_body_open(m, kwpos, kw):
    j = kwpos + len(kw)
    while j < len(m):
        ch = m[j]
        if ch in '([':
            j = match_close(m, j)
        elif ch == '{':
            if re.search(r'\bunsafe\s*$', m[:j]):
                j = match_close(m, j)      # `unsafe { .. }` inside the loop header is an expression, not the body
            else:
                return j
        j += 1
    raise ExtractError('loop body not found')


def find_loops(body):
    m = mask(body)
    return [(mt.start(), mt.group(1)) for mt in re.finditer(r'\b(while|loop|for)\b', m)]


def stmt_start(m, pos):
    """start of the statement containing pos: just after the previous ';' '{' or '}' that is not
    inside a bracket group closed before pos"""
    i = pos - 1
    while i >= 0:
        ch = m[i]
        if ch in ')]':
            i = match_open(m, i)
        elif ch in '{};':
            return i + 1
        i -= 1
    return 0


def stmt_end(m, pos):
    mt = re.match(r'(while|for|loop)\b', m[pos:])
    if mt:      # a loop is a statement of its own: it ends with its body
        return match_close(m, loop_body_open(m, pos, mt.group(1))) + 1
    j = pos
    while j < len(m):
        ch = m[j]
        if ch in '([{':
            j = match_close(m, j)
        elif ch == ';':
            return j + 1
        elif ch in ')]}':
            return j
        j += 1
    return len(m)


def apply_insertions(body, loops, hints, fname, notes, edges=None):
    """loops: {k: text}; hints: [(alternatives, text)] with alternatives = [(where, regex, k)]"""
    ins = []   # (offset, text)
    m = mask(body)
    lps = find_loops(body)
    for (kind, k), text in (edges or {}).items():
        if k < 1 or k > len(lps):
            raise ExtractError('%s: loop #%d not found (body has %d loops)' % (fname, k, len(lps)))
        pos, kw = lps[k - 1]
        op = loop_body_open(m, pos, kw)
        # the invariant text goes in front of the brace (same offset): order the two by a tie-breaker below
        ins.append((op + 1, '\n' + text.rstrip() + '\n') if kind == 'LOOPSTART' else (match_close(m, op), '\n' + text.rstrip() + '\n'))
    for k, text in loops.items():
        if k < 1 or k > len(lps):
            raise ExtractError('%s: loop #%d not found (body has %d loops)' % (fname, k, len(lps)))
        pos, kw = lps[k - 1]
        ins.append((loop_body_open(m, pos, kw), '\n' + text.rstrip() + '\n'))
    for alts, text in hints:
        placed = False
        for where, rx, k, every in alts:
            occ = [mt for mt in re.finditer(rx, m)]
            if len(occ) >= k:
                p = occ[k - 1].start()
                off = stmt_start(m, p) if where == 'before' else stmt_end(m, p)
                if not any(o == off and t.strip() == text.strip() for o, t in ins):
                    ins.append((off, '\n' + text.rstrip() + '\n'))
                placed = True
                if not every:
                    break
        if not placed:
            notes.append({'function': fname, 'lost_anchor': [a[1] for a in alts]})
    for off, text in sorted(ins, key=lambda t: -t[0]):
        body = body[:off] + text + body[off:]
    return body


# ----------------------------------------------------------------------------------------------
# template expansion
# ----------------------------------------------------------------------------------------------

def parse_kv(line):
    kv = {}
    for mt in re.finditer(r'(\w+)=(/(?:[^/\\]|\\.)*/|\S+)', line):
        v = mt.group(2)
        if v.startswith('/') and v.endswith('/') and len(v) >= 2:
            v = v[1:-1]
        kv[mt.group(1)] = v
    return kv


def parse_hint_alts(spec):
    """`a || b`: place at the first anchor found;  `a && b`: place at every anchor found (at least one)"""
    alts = []
    every = '&&' in spec
    for part in re.split(r'\|\||&&', spec):
        mt = re.match(r'\s*(before|after)\s+/((?:[^/\\]|\\.)*)/\s*(?:#(\d+))?\s*$', part)
        if not mt:
            raise ExtractError('bad HINT anchor: %r' % part)
        alts.append((mt.group(1), mt.group(2), int(mt.group(3) or 1), every))
    return alts


class Generated:
    def __init__(self):
        self.lines = []
        self.linemap = []       # per generated line: dict(fn=..., kind=..., tags=[...]) or None
        self.functions = []     # extracted functions (dicts)
        self.externals = []
        self.types = []
        self.rewrites = []
        self.notes = []         # lost anchors etc.
        self.clauses = []       # {fn, tags, text, line}

    def emit(self, text, info=None):
        for ln in text.split('\n'):
            self.lines.append(ln)
            self.linemap.append(info)

    def text(self):
        return '\n'.join(self.lines) + '\n'


def emit_spec(gen, fname, ftags, spec, canary):
    """emit requires/ensures lines, tracking /*@Cxx*/ clause tags; returns nothing"""
    lines = spec.rstrip().split('\n') if spec.strip() else []
    cur = list(ftags)
    section = None
    for ln in lines:
        s = ln.strip()
        if re.match(r'(requires|ensures|decreases|recommends)\b', s):
            section = re.match(r'(\w+)', s).group(1)
            cur = list(ftags)
        mt = re.search(r'/\*@([^*]*)\*/', ln)
        if mt:
            cur = mt.group(1).split()
        info = {'fn': fname, 'kind': section or 'spec', 'tags': list(cur)}
        gen.lines.append(ln)
        gen.linemap.append(info)
        if mt and section in ('ensures', 'requires'):
            gen.clauses.append({'fn': fname, 'tags': list(cur), 'line': len(gen.lines), 'text': norm(ln)[:200], 'section': section})


def expand(template_path, repo_src_dir, canary=False):
    gen = Generated()
    sources = {}

    def source(rel):
        if rel not in sources:
            p = os.path.join(repo_src_dir, rel)
            if not os.path.exists(p):
                raise ExtractError('source file %s missing' % rel)
            sources[rel] = Source(p, rel)
        return sources[rel]

    tl = open(template_path).read().split('\n')
    default_heapcalls = []
    i = 0
    while i < len(tl):
        ln = tl[i]
        s = ln.strip()
        if not s.startswith('//@@'):
            gen.emit(ln)
            i += 1
            continue
        d = s[4:].strip()
        if d.startswith('TYPE'):
            kv = parse_kv(d)
            kw, text = source(kv['file']).find_type(kv['name'])
            text = strip_attrs_docs(text)
            text = re.sub(r'^\s*//.*$', '', text, flags=re.M)
            text = re.sub(r'\bpub\s*\(crate\)\s*', '', text)
            text = re.sub(r'\bpub\s+', '', text)
            if kv.get('strip_default'):
                text = re.sub(r'\s*=\s*DefaultHashBuilder', '', text)
            # R1: everything pub
            if kw == 'struct':
                head, rest = text.split('{', 1)
                rest = re.sub(r'(^|,|\{)(\s*)(\w+\s*:)', lambda mt: mt.group(1) + mt.group(2) + 'pub ' + mt.group(3), '{' + rest)
                text = 'pub ' + head.strip() + ' ' + rest
            else:
                text = 'pub ' + text.strip()
            text = re.sub(r'\n\s*\n', '\n', text)
            gen.types.append({'file': kv['file'], 'name': kv['name'], 'sha256': hashlib.sha256(text.encode()).hexdigest()})
            gen.emit(text, {'fn': 'type ' + kv['name'], 'kind': 'type', 'tags': []})
            i += 1
            continue
        if d.startswith('HEAPCALLS'):
            default_heapcalls = [x for x in d.split(None, 1)[1].replace(' ', '').split(',') if x]
            i += 1
            continue
        if d.startswith('CANARY'):
            # hand-written callers of assumed contracts; emitted in canary mode only, each must FAIL
            name = d.split()[1]
            i += 1
            blk = []
            while not tl[i].strip().startswith('//@@ END'):
                blk.append(tl[i])
                i += 1
            i += 1
            if canary:
                gen.emit('\n'.join(blk), {'fn': 'canary:' + name, 'kind': 'body', 'tags': []})
                gen.functions.append({'fn': 'canary:' + name, 'file': '(template)', 'impl': '', 'name': name,
                                      'source_line': 0, 'sha256': '', 'tags': [], 'gen_lines': [0, 0]})
            continue
        if d.startswith('EXTERNAL'):
            kv = parse_kv(d)
            f = source(kv['file']).find_fn(kv.get('impl', ''), kv['name'])
            gen.externals.append({'file': kv['file'], 'impl': f.impl_header, 'name': kv['name'],
                                  'sha256': f.sha256, 'line': f.line})
            i += 1
            continue
        if not d.startswith('FN'):
            raise ExtractError('unknown directive: %s' % s)
        kv = parse_kv(d)
        sections = {'SPEC': '', 'PROLOGUE': ''}
        loops, hints = {}, []
        binds = []
        edges = {}
        optional_loops = set()
        cur = None
        i += 1
        while i < len(tl):
            s2 = tl[i].strip()
            if s2.startswith('//@@'):
                d2 = s2[4:].strip()
                if d2 == 'END':
                    break
                if d2 in ('SPEC', 'PROLOGUE'):
                    cur = ('sec', d2)
                elif d2.startswith('LOOPSTART') or d2.startswith('LOOPEND'):
                    # proof text at the very start / very end of the body of loop k (no anchor in the code needed)
                    cur = ('edge', (d2.split()[0], int(d2.split()[1])))
                    edges[cur[1]] = ''
                elif d2.startswith('LOOP'):
                    cur = ('loop', int(d2.split()[1]))
                    loops[cur[1]] = ''
                    if d2.startswith('LOOP?'):
                        optional_loops.add(cur[1])
                elif d2.startswith('BIND'):
                    # BIND name /regex with one group/: `$name` in the proof text stands for the identifier the code uses
                    mt = re.match(r'BIND\s+(\w+)\s+/((?:[^/\\]|\\.)*)/\s*$', d2)
                    if not mt:
                        raise ExtractError('bad BIND: %s' % s2)
                    binds.append((mt.group(1), mt.group(2)))
                    cur = None
                elif d2.startswith('HINT'):
                    hints.append([parse_hint_alts(d2[4:]), ''])
                    cur = ('hint', len(hints) - 1)
                else:
                    raise ExtractError('unknown directive inside FN: %s' % s2)
            else:
                if cur is None:
                    pass
                elif cur[0] == 'sec':
                    sections[cur[1]] += tl[i] + '\n'
                elif cur[0] == 'edge':
                    edges[cur[1]] += tl[i] + '\n'
                elif cur[0] == 'loop':
                    loops[cur[1]] += tl[i] + '\n'
                else:
                    hints[cur[1]][1] += tl[i] + '\n'
            i += 1
        i += 1   # skip END
        f = source(kv['file']).find_fn(kv.get('impl', ''), kv['name'])
        qual = kv.get('as', kv['name'])
        fname = '%s::%s' % (kv.get('owner', ''), qual) if kv.get('owner') else qual
        tags = kv.get('tags', '').split(',') if kv.get('tags') else []
        rw = Rewriter(gen.rewrites, fname)
        quals, head, params, ret, where = split_sig(f.sig)
        mode = kv.get('mode', 'inherent')
        unsafe = 'unsafe ' if re.search(r'\bunsafe\b', quals) else ''
        vis = '' if mode == 'trait' else 'pub '
        if kv.get('as'):
            head = re.sub(r'\bfn\s+\w+', 'fn ' + kv['as'], head, count=1)
        rname = kv.get('ret', 'r')
        body = f.body
        body = re.sub(r'^\s*///.*\n', '', body, flags=re.M)
        body = rw.r3_from_mut(body)
        body = rw.r6_question(body, option=(kv.get('question') == 'option'))
        body = rw.r2_map(body)
        for sub in [x for x in kv.get('subst', '').split(';;') if x]:
            a, b = sub.split('=>')
            a, b = a.replace('_', ' ') if False else a, b
            if a in body or a in ret:
                rw.note('R8', 'substitute %s => %s' % (a, b))
            body = body.replace(a, b)
            ret = ret.replace(a, b)
        if kv.get('drop_debug_asserts'):
            def _da(mt):
                rw.note('R10', mt.group(0))
                return ''
            body = re.sub(r'[ \t]*debug_assert\w*!\([^;]*\);[ \t]*\n', _da, body)
        if kv.get('array_iter'):
            # R9: RECV.iter()  =>  array_iter(RECV)
            while True:
                mm = mask(body)
                mt = re.search(r'\.\s*iter\s*\(\s*\)', mm)
                if not mt:
                    break
                rs = receiver_start(mm, mt.start())
                rw.note('R9', body[rs:mt.end()])
                body = body[:rs] + 'array_iter(' + body[rs:mt.start()].rstrip() + ')' + body[mt.end():]
        if kv.get('for_by_ref'):
            # R12: `for PAT in X.by_ref() BODY`  =>  `loop { match X.next() { Some(PAT) => BODY None => { break; } } }`
            # (the documented desugaring of a for loop over `&mut I`; `X.next()` is the iterator's own next, see R5)
            while True:
                mm = mask(body)
                mt = re.search(r'\bfor\s+(\S+)\s+in\s+', mm)
                if not mt:
                    break
                op = loop_body_open(mm, mt.start(), 'for')
                it = body[mt.end():op].strip()
                mb = re.match(r'(.*)\.\s*by_ref\s*\(\s*\)$', it, re.S)
                cl = match_close(mm, op)
                rw.note('R12', body[mt.start():op].strip())
                if mb:
                    body = (body[:mt.start()] + 'loop { match ' + mb.group(1).strip() + '.next() { Some(' + body[mt.start(1):mt.end(1)] + ') => '
                            + body[op:cl + 1] + ' None => { break; } } }' + body[cl + 1:])
                else:
                    # general form: the iterator value lives in a fresh local for the duration of the loop
                    body = (body[:mt.start()] + '{ let mut iter__ = ' + it + '; loop { match iter__.next() { Some(' + body[mt.start(1):mt.end(1)] + ') => '
                            + body[op:cl + 1] + ' None => { break; } } } }' + body[cl + 1:])
        if kv.get('ptr_get'):
            # R11: RECV.get()  =>  self.at(RECV): the dereference of a list pointer names the cache whose heap it reads
            while True:
                mm = mask(body)
                mt = re.search(r'\.\s*get\s*\(\s*\)', mm)
                if not mt:
                    break
                rs = receiver_start(mm, mt.start())
                rw.note('R11', body[rs:mt.end()])
                body = body[:rs] + 'self.at(' + body[rs:mt.start()].rstrip() + ')' + body[mt.end():]
        if kv.get('heap'):
            body = rw.r13_heap(body, [x for x in kv.get('heapcalls', '').split(',') if x] + [x for x in default_heapcalls if x not in kv.get('heapcalls', '').split(',')], snapshot=bool(kv.get('get_snapshot')))
            params = params.rstrip()
            if re.match(r'\(\s*mut\s+self\b', params):
                # R16: `mut self` was needed only for get_mut's `&mut self` receiver; hget_mut takes `&self`
                rw.note('R16', 'mut self => self')
                params = re.sub(r'\(\s*mut\s+self\b', '(self', params, count=1)
            inner = params[1:-1].strip()
            params = '(' + (inner.rstrip(',') + ', ' if inner else '') + 'heap: &mut Heap<K, V>)'
        # conditional proof lines: `//?/regex/ text` is kept only if the code matches, `//!/regex/ text` only if it does not
        def cond_(t):
            outl = []
            for ln_ in t.split('\n'):
                mc = re.match(r'\s*//([?!])/((?:[^/\\]|\\.)*)/(.*)$', ln_)
                if not mc:
                    outl.append(ln_)
                    continue
                hit = re.search(mc.group(2), mask(body)) is not None
                if hit == (mc.group(1) == '?'):
                    outl.append(mc.group(3))
                    rw.note('COND', '%s/%s/' % (mc.group(1), mc.group(2)))
            return '\n'.join(outl)
        sections = {k: cond_(v) for k, v in sections.items()}
        loops = {k: cond_(v) for k, v in loops.items()}
        hints = [[a, cond_(t)] for a, t in hints]
        edges = {k: cond_(v) for k, v in edges.items()}
        for bname, brx in binds:
            mt = re.search(brx, mask(body))
            if not mt:
                gen.notes.append({'function': fname, 'lost_anchor': ['BIND %s /%s/' % (bname, brx)]})
                continue
            ident = body[mt.start(1):mt.end(1)]
            if ident != bname:
                rw.note('BIND', '$%s = %s' % (bname, ident))
            sub_ = lambda t: re.sub(r'\$%s\b' % re.escape(bname), ident, t)
            sections = {k: sub_(v) for k, v in sections.items()}
            loops = {k: sub_(v) for k, v in loops.items()}
            hints = [[a, sub_(t)] for a, t in hints]
            edges = {k: sub_(v) for k, v in edges.items()}
        nl = len(find_loops(body))
        loops = {k: v for k, v in loops.items() if not (k in optional_loops and k > nl)}
        edges = {k: v for k, v in edges.items() if not (k[1] in optional_loops and k[1] > nl)}
        loop_canaries = []
        if canary:
            # every loop body must be reachable under its invariant (a contradictory invariant verifies any body)
            for k_ in range(1, nl + 1):
                pseudo = '%s#loop%d' % (fname, k_)
                edges[('LOOPEND', k_)] = edges.get(('LOOPEND', k_), '') + '\n        proof { if vstd::pervasive::arbitrary::<Seq<bool>>()[%d] { assert(false); } } /*canary-loop: %s */\n' % (k_, pseudo)
                loop_canaries.append(pseudo)
        body = apply_insertions(body, loops, [(a, t) for a, t in hints], fname, gen.notes, edges)
        sig = '    %s%s%s%s' % (vis, unsafe, head, params)
        if ret:
            sig += ' -> (%s: %s)' % (rname, ret)
        start_line = len(gen.lines) + 1
        for a in kv.get('attrs', '').split(';'):
            if a and canary and a.startswith('verifier::rlimit'):
                continue        # the canary twin asks for a proof of `false`: no extra resources for that
            if a:
                gen.emit('    #[%s]' % a, {'fn': fname, 'kind': 'attr', 'tags': tags})
        gen.emit(sig, {'fn': fname, 'kind': 'sig', 'tags': tags})
        if where:
            gen.emit('    ' + where.strip(), {'fn': fname, 'kind': 'sig', 'tags': tags})
        emit_spec(gen, fname, tags, sections['SPEC'], canary)
        gen.emit('    {', {'fn': fname, 'kind': 'body', 'tags': tags})
        if sections['PROLOGUE'].strip():
            gen.emit(sections['PROLOGUE'].rstrip(), {'fn': fname, 'kind': 'body', 'tags': tags})
        if canary and kv.get('canary', 'exit') == 'entry':
            gen.emit('        proof { if vstd::pervasive::arbitrary::<Seq<bool>>()[0] { assert(false); } } /*canary: entry must be reachable*/', {'fn': fname, 'kind': 'body', 'tags': tags})
            gen.emit(body.strip('\n'), {'fn': fname, 'kind': 'body', 'tags': tags})
        elif canary:
            gen.emit('        let r__ = {', {'fn': fname, 'kind': 'body', 'tags': tags})
            gen.emit(body.strip('\n'), {'fn': fname, 'kind': 'body', 'tags': tags})
            gen.emit('        };', {'fn': fname, 'kind': 'body', 'tags': tags})
            gen.emit('        proof { assert(false); } /*canary: exit must be reachable*/', {'fn': fname, 'kind': 'body', 'tags': tags})
            gen.emit('        r__', {'fn': fname, 'kind': 'body', 'tags': tags})
        else:
            gen.emit(body.strip('\n'), {'fn': fname, 'kind': 'body', 'tags': tags})
        gen.emit('    }', {'fn': fname, 'kind': 'body', 'tags': tags})
        gen.functions.append({'fn': fname, 'file': f.file, 'impl': f.impl_header, 'name': f.name,
                              'source_line': f.line, 'sha256': f.sha256, 'tags': tags,
                              'gen_lines': [start_line, len(gen.lines)]})
        for pseudo in loop_canaries:
            gen.functions.append({'fn': pseudo, 'file': f.file, 'impl': f.impl_header, 'name': f.name, 'source_line': f.line,
                                  'sha256': '', 'tags': tags, 'gen_lines': [start_line, len(gen.lines)]})
    return gen


if __name__ == '__main__':
    g = expand(sys.argv[1], sys.argv[2], canary=len(sys.argv) > 4 and sys.argv[4] == 'canary')
    open(sys.argv[3], 'w').write(g.text())
    json.dump({'functions': g.functions, 'externals': g.externals, 'rewrites': g.rewrites, 'notes': g.notes,
               'types': g.types, 'clauses': g.clauses}, sys.stdout, indent=1)
