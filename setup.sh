#!/bin/sh
# offline setup: nothing is downloaded; make sure the tools answer and warm the Kani dependency build
set -e
cd "$(dirname "$0")"
mkdir -p .work evidence replays
# build output of earlier runs (possibly of other trees) must never be reused: cargo's freshness test is mtime-based
rm -rf .work/ktarget .work/replay-target .work/replay-target-alt .work/replay-src .work/mutout
python3 -c "import sys; sys.path.insert(0, 'lib'); import vengine, kengine, props, vgen, rsrc"
verus --version >/dev/null
cargo kani --version >/dev/null
echo setup ok
