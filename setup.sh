#!/bin/sh
# offline setup: nothing is downloaded; make sure the tools answer and warm the Kani dependency build
set -e
cd "$(dirname "$0")"
mkdir -p .work evidence replays
python3 -c "import sys; sys.path.insert(0, 'lib'); import vengine, kengine, props, vgen, rsrc"
verus --version >/dev/null
cargo kani --version >/dev/null
echo setup ok
