//! Verification hooks of /verif, compiled into lru-mem only under `cfg(kani)` (Kani's compiler sets it)
//! or `--cfg lru_mem_verif` (native replay builds).  With neither set the crate is unchanged.
#[cfg(kani)]
pub mod table;
#[cfg(kani)]
mod harness;
#[cfg(all(lru_mem_verif, not(kani)))]
pub mod native;
