//! Contract double of the `hashbrown::raw::RawTable` API subset used by lru-mem (assumption A-DOUBLE).
//!
//! Compiled instead of hashbrown's table only under `cfg(kani)`.  It implements the *documented
//! contract* (A-HB) of each operation, not hashing: a fixed array of MAXCAP slots, linear scan,
//! stable bucket addresses until the table is dropped.  All freedom hashbrown has is left
//! non-deterministic: which free slot an insertion takes (hence every bucket placement and every
//! `into_iter`/`drain`/`iter` order relative to recency order), whether a removal leaves a tombstone
//! (does not give `growth_left` back, so `capacity()` drops), how many slots a fresh table gets
//! (at least the requested number), and whether an allocation is refused.
//!
//! It doubles as a monitor for hashbrown's *preconditions*: it remembers the hash each element was
//! inserted under and asserts that every element the `eq` closure accepts is being addressed with
//! that hash, and that `insert(h, v, hasher)` is called with `h == hasher(&v)`.
use std::mem::MaybeUninit;
use hashbrown::TryReserveError;

pub const MAXCAP: usize = 4;

/// verification switches (set by harnesses)
pub static mut MONITOR_HASH: bool = true;      // check hash routing (costs extra Hash calls in `insert`)
pub static mut NONDET_PLACEMENT: bool = false; // any free slot instead of the first one
pub static mut NONDET_TOMBSTONE: bool = false; // removals may leave tombstones
pub static mut NONDET_ALLOC_FAIL: bool = false; // try_with_capacity may fail
pub static mut NONDET_CAP: bool = false;        // fresh tables may be larger than requested

pub struct Bucket<T> { ptr: *mut T }
impl<T> Clone for Bucket<T> { fn clone(&self) -> Self { Bucket { ptr: self.ptr } } }
impl<T> Bucket<T> {
    pub fn as_ptr(&self) -> *mut T { self.ptr }
    pub unsafe fn as_ref<'a>(&self) -> &'a T { &*self.ptr }
}

pub struct Inner<T> {
    slots: [MaybeUninit<T>; MAXCAP],
    full: [bool; MAXCAP],
    hash: [u64; MAXCAP],
    nslots: usize,       // slots this table owns (its full capacity)
    items: usize,
    growth_left: usize,
}
pub struct RawTable<T> { i: Box<Inner<T>> }

fn new_inner<T>(nslots: usize) -> Box<Inner<T>> {
    Box::new(Inner {
        slots: unsafe { MaybeUninit::uninit().assume_init() },
        full: [false; MAXCAP], hash: [0; MAXCAP], nslots, items: 0, growth_left: nslots,
    })
}

impl<T> RawTable<T> {
    pub fn new() -> Self { RawTable { i: new_inner(0) } }
    pub fn with_capacity(n: usize) -> Self {
        match Self::try_with_capacity(n) { Ok(t) => t, Err(_) => panic!("allocation refused") }
    }
    pub fn try_with_capacity(n: usize) -> Result<Self, TryReserveError> {
        if n > MAXCAP { return Err(TryReserveError::CapacityOverflow); }
        if unsafe { NONDET_ALLOC_FAIL } && kani::any() { return Err(TryReserveError::CapacityOverflow); }
        let mut slots = n;
        if unsafe { NONDET_CAP } {
            let extra: usize = kani::any();
            if extra <= MAXCAP && n + extra <= MAXCAP { slots = n + extra; }
        }
        Ok(RawTable { i: new_inner(slots) })
    }
    /// verification helper: does `p` point into a full bucket of this table?
    pub fn owns(&self, p: *const T) -> bool {
        let mut i = 0;
        while i < MAXCAP { if i < self.i.nslots && self.i.full[i] && self.i.slots[i].as_ptr() == p { return true; } i += 1; }
        false
    }
    /// verification helper: slot view (full, hash, address)
    pub fn slot(&self, i: usize) -> (bool, u64, *const T) {
        (i < self.i.nslots && self.i.full[i], self.i.hash[i], self.i.slots[i].as_ptr())
    }
    pub fn nslots(&self) -> usize { self.i.nslots }
    /// verification helper: addresses of the table's own bookkeeping (for Kani `modifies` clauses)
    pub fn meta_full(&self) -> *mut [bool; MAXCAP] { &self.i.full as *const [bool; MAXCAP] as *mut [bool; MAXCAP] }
    pub fn meta_items(&self) -> *mut usize { &self.i.items as *const usize as *mut usize }
    pub fn meta_growth_left(&self) -> *mut usize { &self.i.growth_left as *const usize as *mut usize }
    pub fn growth_left(&self) -> usize { self.i.growth_left }
    pub fn len(&self) -> usize { self.i.items }
    pub fn capacity(&self) -> usize { self.i.items + self.i.growth_left }
    pub fn buckets(&self) -> usize { self.i.nslots + (self.i.nslots > 0) as usize }
    fn find_index(&self, hash: u64, mut eq: impl FnMut(&T) -> bool) -> Option<usize> {
        let mut i = 0;
        while i < MAXCAP {
            if i < self.i.nslots && self.i.full[i] && eq(unsafe { self.i.slots[i].assume_init_ref() }) {
                if unsafe { MONITOR_HASH } {
                    assert!(self.i.hash[i] == hash, "A-HB precondition: element addressed with a hash it was not inserted under");
                }
                return Some(i);
            }
            i += 1;
        }
        None
    }
    pub fn find(&self, hash: u64, eq: impl FnMut(&T) -> bool) -> Option<Bucket<T>> {
        match self.find_index(hash, eq) { Some(i) => Some(Bucket { ptr: self.i.slots[i].as_ptr() as *mut T }), None => None }
    }
    pub fn get(&self, hash: u64, eq: impl FnMut(&T) -> bool) -> Option<&T> {
        match self.find_index(hash, eq) { Some(i) => Some(unsafe { self.i.slots[i].assume_init_ref() }), None => None }
    }
    pub fn get_mut(&mut self, hash: u64, eq: impl FnMut(&T) -> bool) -> Option<&mut T> {
        match self.find_index(hash, eq) { Some(i) => Some(unsafe { self.i.slots[i].assume_init_mut() }), None => None }
    }
    pub fn remove_entry(&mut self, hash: u64, eq: impl FnMut(&T) -> bool) -> Option<T> {
        match self.find_index(hash, eq) {
            Some(i) => {
                self.i.full[i] = false; self.i.items -= 1;
                let tomb = unsafe { NONDET_TOMBSTONE } && kani::any();
                if !tomb { self.i.growth_left += 1; }
                Some(unsafe { self.i.slots[i].assume_init_read() })
            }
            None => None
        }
    }
    fn free_index(&self) -> Option<usize> {
        if self.i.growth_left == 0 { return None; }
        if unsafe { NONDET_PLACEMENT } {
            let j: usize = kani::any();
            if j < MAXCAP && j < self.i.nslots && !self.i.full[j] { return Some(j); }
        }
        let mut i = 0;
        while i < MAXCAP { if i < self.i.nslots && !self.i.full[i] { return Some(i); } i += 1; }
        None
    }
    pub fn try_insert_no_grow(&mut self, hash: u64, value: T) -> Result<Bucket<T>, T> {
        match self.free_index() {
            Some(i) => {
                self.i.full[i] = true; self.i.hash[i] = hash; self.i.items += 1; self.i.growth_left -= 1;
                self.i.slots[i].write(value);
                Ok(Bucket { ptr: self.i.slots[i].as_mut_ptr() })
            }
            None => Err(value)
        }
    }
    pub fn insert(&mut self, hash: u64, value: T, hasher: impl Fn(&T) -> u64) -> Bucket<T> {
        if unsafe { MONITOR_HASH } {
            assert!(hash == hasher(&value), "A-HB precondition: insert(hash, v, hasher) with hash != hasher(&v)");
        }
        match self.try_insert_no_grow(hash, value) { Ok(b) => b, Err(_) => panic!("the table double never grows in place") }
    }
    pub fn clear_no_drop(&mut self) {
        self.i.full = [false; MAXCAP]; self.i.items = 0; self.i.growth_left = self.i.nslots;
    }
    pub fn drain(&mut self) -> TakeAll<'_, T> { TakeAll { t: &mut *self.i, pos: 0 } }
    pub fn into_iter(self) -> TakeAllOwned<T> { TakeAllOwned { t: self.i, pos: 0 } }
    pub unsafe fn iter(&self) -> BucketIter<'_, T> { BucketIter { t: &*self.i, pos: 0 } }
}
fn take_next<T>(t: &mut Inner<T>, pos: &mut usize) -> Option<T> {
    while *pos < MAXCAP {
        let i = *pos; *pos += 1;
        if i < t.nslots && t.full[i] {
            t.full[i] = false; t.items -= 1; t.growth_left += 1;
            return Some(unsafe { t.slots[i].assume_init_read() });
        }
    }
    None
}
pub struct TakeAll<'a, T> { t: &'a mut Inner<T>, pos: usize }
impl<'a, T> Iterator for TakeAll<'a, T> { type Item = T; fn next(&mut self) -> Option<T> { take_next(self.t, &mut self.pos) } }
impl<'a, T> Drop for TakeAll<'a, T> {
    // hashbrown's RawDrain drops what was not consumed and leaves the table empty
    fn drop(&mut self) { while let Some(x) = take_next(self.t, &mut self.pos) { drop(x); } self.t.growth_left = self.t.nslots; }
}
pub struct TakeAllOwned<T> { t: Box<Inner<T>>, pos: usize }
impl<T> Iterator for TakeAllOwned<T> { type Item = T; fn next(&mut self) -> Option<T> { take_next(&mut self.t, &mut self.pos) } }
impl<T> Drop for TakeAllOwned<T> {
    fn drop(&mut self) { while let Some(x) = take_next(&mut self.t, &mut self.pos) { drop(x); } }
}
pub struct BucketIter<'a, T> { t: &'a Inner<T>, pos: usize }
impl<'a, T> Iterator for BucketIter<'a, T> {
    type Item = Bucket<T>;
    fn next(&mut self) -> Option<Bucket<T>> {
        while self.pos < MAXCAP {
            let i = self.pos; self.pos += 1;
            if i < self.t.nslots && self.t.full[i] { return Some(Bucket { ptr: self.t.slots[i].as_ptr() as *mut T }); }
        }
        None
    }
}
