//! frame_*: operations available through `&LruCache` never write (C19).
//! Quick form: bitwise fingerprint of everything reachable (seal, every slot of the table incl. stored
//! hash, address, links, recorded size, key and value; counters; capacity) equal before and after.
//! Thorough form: function contract with an EMPTY modifies clause, proved with proof_for_contract, which
//! makes CBMC check every write instruction reachable from the call against the empty assignable set.
use super::common::*;
use super::*;

fn body_frame_lookups(c: LruCache<u8, SV, BH>) {
    let o = order(&c);
    let fp = fingerprint(&c);
    let k: u8 = kani::any();
    kani::assume(k < 4);
    let present = index_in(o, k).is_some();
    let which: u8 = kani::any();
    match which {
        0 => { let r = c.peek(&k); assert!(r.is_some() == present); if let Some(v) = r { assert!(v.0 == 8 + k as usize); } }
        1 => { let r = c.peek_entry(&k); assert!(r.is_some() == present); if let Some((kk, v)) = r { assert!(*kk == k && v.0 == 8 + k as usize); } }
        2 => { assert!(c.contains(&k) == present); }
        3 => { let r = c.peek_lru(); assert!(r.is_some() == (o.1 > 0)); if let Some((kk, _)) = r { assert!(*kk == o.0[0]); } }
        4 => { let r = c.peek_mru(); assert!(r.is_some() == (o.1 > 0)); if let Some((kk, _)) = r { assert!(*kk == o.0[o.1 - 1]); } }
        _ => {
            assert!(c.len() == o.1 && c.is_empty() == (o.1 == 0));
            let _ = c.current_size(); let _ = c.max_size(); let _ = c.capacity(); let _ = c.hasher();
        }
    }
    assert!(fingerprint(&c) == fp, "an operation through &LruCache wrote to the cache");
}
#[kani::proof]
#[kani::unwind(6)]
fn q_frame_lookups() { body_frame_lookups(state_q3()); }
#[kani::proof]
#[kani::unwind(6)]
fn q_frame_lookups_small() { let n: u8 = kani::any(); kani::assume(n <= 1); body_frame_lookups(prebuilt(n, 4)); }
#[kani::proof]
#[kani::unwind(6)]
fn t_frame_lookups() { body_frame_lookups(state_t(3)); }

// full traversals both ways are covered by q_it_* (fingerprint compared there); clone by q_op_clone.

// ---- Debug formatting: only calls iter() -------------------------------------------------------------
pub struct Sink { pub n: usize, pub buf: [u8; 16] }
impl std::fmt::Write for Sink {
    fn write_str(&mut self, s: &str) -> std::fmt::Result {
        let b = s.as_bytes();
        let mut i = 0;
        while i < b.len() { if self.n < 16 { self.buf[self.n] = b[i]; } self.n += 1; i += 1; }
        Ok(())
    }
}
impl std::fmt::Debug for SV { fn fmt(&self, f: &mut std::fmt::Formatter<'_>) -> std::fmt::Result { f.write_str("v") } }
/// key type with a one-character Debug form (number formatting is needlessly expensive for CBMC)
#[derive(PartialEq, Eq, Hash)]
pub struct DK(pub u8);
impl HeapSize for DK { fn heap_size(&self) -> usize { 0 } }
impl std::fmt::Debug for DK { fn fmt(&self, f: &mut std::fmt::Formatter<'_>) -> std::fmt::Result { f.write_str(if self.0 == 0 { "a" } else { "b" }) } }
#[kani::proof]
#[kani::unwind(18)]
fn t_frame_debug() {
    use std::fmt::Write;
    let mut c: LruCache<DK, SV, BH> = LruCache::with_capacity_and_hasher(usize::MAX / 2, 2, BH::default());
    link_new(&mut c, UnhingedEntry::new(DK(0), SV(1)));
    link_new(&mut c, UnhingedEntry::new(DK(1), SV(1)));
    c.touch(&DK(0));                  // order is now b, a
    let seal_before = (c.seal.get().prev, c.seal.get().next, c.current_size);
    let mut s = Sink { n: 0, buf: [0; 16] };
    let _ = write!(s, "{:?}", c);
    assert!((c.seal.get().prev, c.seal.get().next, c.current_size) == seal_before, "Debug formatting wrote to the cache");
    // Debug output lists the entries in the order of iteration: least- to most-recently-used
    let expect = b"{b: v, a: v}";
    assert!(s.n == expect.len());
    let mut i = 0;
    while i < expect.len() { assert!(s.buf[i] == expect[i], "Debug output is not in LRU -> MRU order"); i += 1; }
}

// ---- frame contracts (thorough): empty modifies set, every write instruction checked -----------------
#[kani::ensures(|_r| true)]
fn wrap_peek(c: &LruCache<u8, SV, BH>, k: u8) -> bool { c.peek(&k).is_some() }
#[kani::proof_for_contract(wrap_peek)]
#[kani::unwind(6)]
fn t_framec_peek() { table_defaults(); let c = prebuilt(2, 4); let k: u8 = kani::any(); kani::assume(k < 3); let _ = wrap_peek(&c, k); }

#[kani::ensures(|_r| true)]
fn wrap_peek_entry(c: &LruCache<u8, SV, BH>, k: u8) -> bool { c.peek_entry(&k).is_some() }
#[kani::proof_for_contract(wrap_peek_entry)]
#[kani::unwind(6)]
fn t_framec_peek_entry() { table_defaults(); let c = prebuilt(2, 4); let k: u8 = kani::any(); kani::assume(k < 3); let _ = wrap_peek_entry(&c, k); }

#[kani::ensures(|_r| true)]
fn wrap_contains(c: &LruCache<u8, SV, BH>, k: u8) -> bool { c.contains(&k) }
#[kani::proof_for_contract(wrap_contains)]
#[kani::unwind(6)]
fn t_framec_contains() { table_defaults(); let c = prebuilt(2, 4); let k: u8 = kani::any(); kani::assume(k < 3); let _ = wrap_contains(&c, k); }

#[kani::ensures(|_r| true)]
fn wrap_peek_ends(c: &LruCache<u8, SV, BH>) -> bool { c.peek_lru().is_some() && c.peek_mru().is_some() }
#[kani::proof_for_contract(wrap_peek_ends)]
#[kani::unwind(6)]
fn t_framec_peek_ends() { table_defaults(); let c = prebuilt(2, 4); let _ = wrap_peek_ends(&c); }

#[kani::ensures(|_r| true)]
fn wrap_iter(c: &LruCache<u8, SV, BH>) -> usize {
    let mut n = 0;
    let mut it = c.iter();
    if it.next().is_some() { n += 1; }
    if it.next_back().is_some() { n += 1; }
    if it.next().is_some() { n += 1; }
    n
}
#[kani::proof_for_contract(wrap_iter)]
#[kani::unwind(6)]
fn t_framec_iter() { table_defaults(); let c = prebuilt(2, 4); let _ = wrap_iter(&c); }

#[kani::ensures(|_r| true)]
fn wrap_scalars(c: &LruCache<u8, SV, BH>) -> usize { c.len() + c.current_size() + c.max_size() + c.capacity() + (c.is_empty() as usize) }
#[kani::proof_for_contract(wrap_scalars)]
#[kani::unwind(6)]
fn t_framec_scalars() { table_defaults(); let c = prebuilt(2, 4); let _ = wrap_scalars(&c); }

// ---- frame contract for a promotion: `touch` may write ONLY the prev/next link fields of list nodes and of the
//      seal -- not sizes, keys, values, counters or any table metadata (function contract with an explicit
//      modifies set; CBMC checks every write instruction reachable from the call against it) -------------------
fn link_fields(c: &LruCache<u8, SV, BH>, i: usize) -> *mut EntryPtr<u8, SV> {
    // i = 0,1: seal.prev / seal.next; i = 2.. : prev / next of slot (i-2)/2
    if i == 0 { return unsafe { &raw mut (*(c.seal.get() as *const Entry<u8, SV> as *mut Entry<u8, SV>)).prev }; }
    if i == 1 { return unsafe { &raw mut (*(c.seal.get() as *const Entry<u8, SV> as *mut Entry<u8, SV>)).next }; }
    let slot = (i - 2) / 2;
    let (_, _, addr) = c.table.slot(slot);
    let e = addr as *mut Entry<u8, SV>;
    if (i - 2) % 2 == 0 { unsafe { &raw mut (*e).prev } } else { unsafe { &raw mut (*e).next } }
}
#[kani::modifies(link_fields(c, 0), link_fields(c, 1), link_fields(c, 2), link_fields(c, 3), link_fields(c, 4), link_fields(c, 5), link_fields(c, 6), link_fields(c, 7))]
#[kani::ensures(|_r| true)]
fn wrap_touch(c: &mut LruCache<u8, SV, BH>, k: u8) { c.touch(&k) }
#[kani::proof_for_contract(wrap_touch)]
#[kani::unwind(6)]
fn t_framec_touch() {
    table_defaults();
    let mut c = prebuilt(3, 3);
    let k: u8 = kani::any();
    kani::assume(k < 4);
    wrap_touch(&mut c, k);
}

// get_lru (a promotion through &mut self that returns references): link fields only
#[kani::modifies(link_fields(c, 0), link_fields(c, 1), link_fields(c, 2), link_fields(c, 3), link_fields(c, 4), link_fields(c, 5), link_fields(c, 6), link_fields(c, 7))]
#[kani::ensures(|_r| true)]
fn wrap_get_lru(c: &mut LruCache<u8, SV, BH>) -> bool { c.get_lru().is_some() }
#[kani::proof_for_contract(wrap_get_lru)]
#[kani::unwind(6)]
fn t_framec_get_lru() {
    table_defaults();
    let n: u8 = kani::any();
    kani::assume(n <= 3);
    let mut c = prebuilt(n, 3);
    let _ = wrap_get_lru(&mut c);
}

// removal of one entry: may write link fields, the table's own bookkeeping and current_size -- not the recorded
// sizes, keys or values of the entries that stay, not max_size
fn cur_size_ptr(c: &LruCache<u8, SV, BH>) -> *mut usize { &c.current_size as *const usize as *mut usize }
#[kani::modifies(link_fields(c, 0), link_fields(c, 1), link_fields(c, 2), link_fields(c, 3), link_fields(c, 4), link_fields(c, 5), link_fields(c, 6), link_fields(c, 7),
                 c.table.meta_full(), c.table.meta_items(), c.table.meta_growth_left(), cur_size_ptr(c))]
#[kani::ensures(|_r| true)]
fn wrap_remove(c: &mut LruCache<u8, SV, BH>, k: u8) -> bool { c.remove(&k).is_some() }
#[kani::proof_for_contract(wrap_remove)]
#[kani::unwind(6)]
fn t_framec_remove() {
    table_defaults();
    let mut c = prebuilt(3, 3);
    let k: u8 = kani::any();
    kani::assume(k < 4);
    let _ = wrap_remove(&mut c, k);
}
