use super::*;

/// identity hasher: hash(k: u8) = k; deterministic, cheap for CBMC
#[derive(Default, Clone)]
pub struct IdHasher(pub u64);
impl Hasher for IdHasher {
    fn finish(&self) -> u64 { self.0 }
    fn write(&mut self, _bytes: &[u8]) { }
    fn write_u8(&mut self, i: u8) { self.0 = i as u64; }
}
/// constant hasher: every key collides
#[derive(Default, Clone)]
pub struct ConstHasher;
impl Hasher for ConstHasher {
    fn finish(&self) -> u64 { 7 }
    fn write(&mut self, _bytes: &[u8]) { }
}
pub type BH = BuildHasherDefault<IdHasher>;
pub type CH = BuildHasherDefault<ConstHasher>;

/// value with a chosen heap size
pub struct SV(pub usize);
impl HeapSize for SV { fn heap_size(&self) -> usize { self.0 } }
/// cloning sheds one byte, like a String that drops its spare capacity when cloned: the clone's own estimate
/// differs from the source's, so a clone() that recomputes sizes through the wrong pointer is visible
impl Clone for SV { fn clone(&self) -> SV { SV(self.0 - 1) } }

pub const E: usize = std::mem::size_of::<Entry<u8, SV>>();
pub const N: usize = 4;

/// contract harnesses (proof_for_contract) start with havocked statics: set every switch explicitly
pub fn table_defaults() {
    unsafe { table::MONITOR_HASH = true; table::NONDET_PLACEMENT = false; table::NONDET_TOMBSTONE = false; table::NONDET_ALLOC_FAIL = false; table::NONDET_CAP = false; }
}

pub fn nondet(placement: bool, tombstone: bool) {
    unsafe { table::NONDET_PLACEMENT = placement; table::NONDET_TOMBSTONE = tombstone; }
}

/// Stores `u` in a free bucket of the table and links it as the most-recently-used entry, using only the
/// primitives of entry.rs and of the table (no private helper of LruCache), and adds its size.  This is what
/// `insert_untracked` + the size update of `Clone::clone` do; harness state builders use it so that a
/// refactoring of LruCache's private helpers does not stop every harness from compiling.  That the states it
/// builds satisfy the representation invariant is itself checked (q_sub_builder).
pub fn link_new<K: Eq + Hash, V, S: BuildHasher>(c: &mut LruCache<K, V, S>, u: UnhingedEntry<K, V>) {
    c.current_size += u.size();
    let h = crate::make_insert_hash::<K, S>(&c.hash_builder, u.key());
    let e = Entry::new(u, c.seal, c.seal.get().next);
    let b = match c.table.try_insert_no_grow(h, e) { Ok(b) => b, Err(_) => panic!("state builder: table full") };
    let mut p = EntryPtr::new(b.as_ptr());
    p.insert(c.seal, c.seal.get().next);
}

/// State generator from L1 primitives only (what `Clone::clone` does): no eviction loop, no growth loop.
/// Keys 0..n inserted in that order (0 = least recently used), value size 8 + key.
pub fn prebuilt_in<S: BuildHasher + Default>(n: u8, cap: usize) -> LruCache<u8, SV, S> {
    let mut c: LruCache<u8, SV, S> = LruCache::with_capacity_and_hasher(usize::MAX / 2, cap, S::default());
    let mut k = 0u8;
    while k < n {
        link_new(&mut c, UnhingedEntry::new(k, SV(8 + k as usize)));
        k += 1;
    }
    c
}
pub fn prebuilt(n: u8, cap: usize) -> LruCache<u8, SV, BH> { prebuilt_in::<BH>(n, cap) }

/// recency order LRU -> MRU as an array of keys (255 = none) and its length
pub fn order<V, S>(c: &LruCache<u8, V, S>) -> ([u8; N], usize) {
    let mut out = [255u8; N];
    let mut n = 0usize;
    let mut p = c.seal.get().prev;
    while p != c.seal {
        assert!(n < N, "list longer than the bound: cycle not closed by the seal");
        out[n] = unsafe { *p.get().key() };
        n += 1;
        p = p.get().prev;
    }
    (out, n)
}

/// `a` with the element at position i moved to the end (what a promotion does)
pub fn promoted(a: ([u8; N], usize), i: usize) -> ([u8; N], usize) {
    let (mut o, n) = a;
    let x = o[i];
    let mut j = i;
    while j + 1 < n { o[j] = o[j + 1]; j += 1; }
    o[n - 1] = x;
    (o, n)
}
/// `a` without the element at position i
pub fn removed(a: ([u8; N], usize), i: usize) -> ([u8; N], usize) {
    let (mut o, n) = a;
    let mut j = i;
    while j + 1 < n { o[j] = o[j + 1]; j += 1; }
    o[n - 1] = 255;
    (o, n - 1)
}
/// addresses of the linked entries, LRU -> MRU (the ghost `nodes()` of the Verus model: A-NODE)
pub fn addrs<K, V, S>(c: &LruCache<K, V, S>) -> ([usize; N], usize) {
    let mut out = [0usize; N];
    let mut n = 0usize;
    let mut p = c.seal.get().prev;
    while p != c.seal {
        assert!(n < N, "list longer than the bound: cycle not closed by the seal");
        out[n] = p.get() as *const Entry<K, V> as usize;
        n += 1;
        p = p.get().prev;
    }
    (out, n)
}
/// element-wise comparison (a derived == on [usize; N] is a 32-byte memcmp: too long for the unwind bound)
pub fn same_addrs(a: ([usize; N], usize), b: ([usize; N], usize)) -> bool {
    if a.1 != b.1 { return false; }
    let mut j = 0;
    while j < a.1 { if a.0[j] != b.0[j] { return false; } j += 1; }
    true
}
pub fn removed_addr(a: ([usize; N], usize), i: usize) -> ([usize; N], usize) {
    let (mut o, n) = a;
    let mut j = i;
    while j + 1 < n { o[j] = o[j + 1]; j += 1; }
    o[n - 1] = 0;
    (o, n - 1)
}
pub fn index_in(a: ([u8; N], usize), k: u8) -> Option<usize> {
    let mut j = 0;
    while j < a.1 { if a.0[j] == k { return Some(j); } j += 1; }
    None
}

/// C07 structural walker: the list is a cycle through the seal, forward and backward traversals
/// mirror each other, have exactly len() nodes, every node is a full bucket of *this* table and is
/// the bucket a lookup of its key finds, keys are pairwise different, recorded sizes sum to
/// current_size (C02), current_size <= max_size (C01).
pub fn coherent<K: Eq + Hash, V, S: BuildHasher>(c: &LruCache<K, V, S>) {
    let n = c.len();
    assert!(n <= N);
    let mut nodes: [*const Entry<K, V>; N] = [std::ptr::null(); N];
    let mut p = c.seal.get().prev;
    let mut cnt = 0usize;
    let mut sum = 0usize;
    let mut before = c.seal;
    while p != c.seal {
        assert!(cnt < n, "forward traversal longer than len()");
        assert!(!p.is_null(), "null link");
        let e = p.get();
        assert!(c.table.owns(e as *const Entry<K, V>), "list node is not a full bucket of self.table");
        assert!(e.next == before, "next link does not mirror prev link");
        let h = crate::make_hash::<K, S>(&c.hash_builder, unsafe { e.key() });
        match c.table.find(h, crate::equivalent_key(unsafe { e.key() })) {
            Some(b) => assert!(b.as_ptr() as *const Entry<K, V> == e as *const Entry<K, V>, "lookup of a listed key finds another bucket"),
            None => assert!(false, "lookup of a listed key finds nothing"),
        }
        nodes[cnt] = e as *const Entry<K, V>;
        sum += e.size;
        cnt += 1;
        before = p;
        p = e.prev;
    }
    assert!(cnt == n, "forward traversal shorter than len()");
    assert!(c.seal.get().next == before, "seal.next is not the last node of the forward traversal");
    // backward traversal mirrors
    let mut q = c.seal.get().next;
    let mut i = cnt;
    while q != c.seal {
        assert!(i > 0, "backward traversal longer than forward traversal");
        i -= 1;
        assert!(q.get() as *const Entry<K, V> == nodes[i], "backward traversal does not mirror forward traversal");
        q = q.get().next;
    }
    assert!(i == 0, "backward traversal shorter than forward traversal");
    assert!(sum == c.current_size(), "current_size is not the sum of the recorded sizes");
    assert!(c.current_size() <= c.max_size(), "memory bound exceeded");
}

/// every recorded size equals entry_size(key, value) (C02 `exact`)
pub fn exact(c: &LruCache<u8, SV, BH>) {
    let mut p = c.seal.get().prev;
    let mut cnt = 0;
    while p != c.seal {
        assert!(cnt < N);
        let e = p.get();
        unsafe { assert!(e.size == crate::entry_size(e.key(), e.value())); }
        cnt += 1;
        p = e.prev;
    }
}

/// quick state: 3 entries in a 4-slot table, promotion history so that bucket order != recency order
pub fn state_q3() -> LruCache<u8, SV, BH> {
    let mut c = prebuilt(3, 4);
    c.touch(&0);                 // order is now 1, 2, 0
    c
}
/// thorough state: n <= max_n entries (symbolic), optional promotion, placement/tombstones non-deterministic
pub fn state_t(max_n: u8) -> LruCache<u8, SV, BH> {
    nondet(true, true);
    let n: u8 = kani::any();
    kani::assume(n <= max_n);
    let mut c = prebuilt(n, 4);
    if n >= 2 && kani::any() {
        let k: u8 = kani::any();
        kani::assume(k < n);
        c.touch(&k);
    }
    c
}


// ---- bitwise fingerprint of everything reachable from a cache (C19, C14) ---------------------------------
#[derive(Clone, Copy)]
pub struct SlotFp { full: bool, hash: u64, addr: *const Entry<u8, SV>, size: usize, prev: EntryPtr<u8, SV>, next: EntryPtr<u8, SV>, key: u8, val: usize }
pub struct Fp {
    seal: EntryPtr<u8, SV>, seal_prev: EntryPtr<u8, SV>, seal_next: EntryPtr<u8, SV>, seal_size: usize,
    cur: usize, max: usize, cap: usize, len: usize, nslots: usize, growth_left: usize,
    slots: [SlotFp; table::MAXCAP],
}
impl PartialEq for Fp {
    fn eq(&self, o: &Fp) -> bool {
        let mut same = self.seal == o.seal && self.seal_prev == o.seal_prev && self.seal_next == o.seal_next
            && self.seal_size == o.seal_size
            && self.cur == o.cur && self.max == o.max && self.cap == o.cap && self.len == o.len
            && self.nslots == o.nslots && self.growth_left == o.growth_left;
        let mut i = 0;
        while i < table::MAXCAP {
            let (a, b) = (&self.slots[i], &o.slots[i]);
            same = same && a.full == b.full && a.addr == b.addr;
            if a.full && b.full {
                same = same && a.hash == b.hash && a.size == b.size && a.prev == b.prev && a.next == b.next && a.key == b.key && a.val == b.val;
            }
            i += 1;
        }
        same
    }
}
pub fn fingerprint<S>(c: &LruCache<u8, SV, S>) -> Fp {
    let blank = SlotFp { full: false, hash: 0, addr: std::ptr::null(), size: 0, prev: c.seal, next: c.seal, key: 0, val: 0 };
    let mut slots = [blank; table::MAXCAP];
    let mut i = 0;
    while i < table::MAXCAP {
        let (full, hash, addr) = c.table.slot(i);
        slots[i].full = full; slots[i].hash = hash; slots[i].addr = addr;
        if full {
            let e = unsafe { &*addr };
            slots[i].size = e.size; slots[i].prev = e.prev; slots[i].next = e.next;
            slots[i].key = unsafe { *e.key() }; slots[i].val = unsafe { e.value() }.0;
        }
        i += 1;
    }
    Fp { seal: c.seal, seal_prev: c.seal.get().prev, seal_next: c.seal.get().next, seal_size: c.seal.get().size,
         cur: c.current_size, max: c.max_size, cap: c.table.capacity(), len: c.table.len(),
         nslots: c.table.nslots(), growth_left: c.table.growth_left(), slots }
}

