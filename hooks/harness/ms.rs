//! ms_*: size estimation on real std containers (C08: compositional, bulk helpers = element-wise sum;
//! C09: heap_size = bytes held, relative to the assumed std contracts A-STD: a Vec holds
//! capacity()*size_of::<T>() bytes, a String/OsString/PathBuf holds capacity() bytes, a Box<T> holds
//! size_of_val).  BOUNDED: capacities and element counts <= 2..3, shapes listed per harness.
use crate::{HeapSize, MemSize, ValueSize};
use std::mem::size_of;
use std::num::Wrapping;
use std::path::PathBuf;

fn any_cap(max: usize) -> usize { let c: usize = kani::any(); kani::assume(c <= max); c }

// ---- C08: mem_size = value_size + heap_size; wrappers add up their parts (no allocation) -----------
#[kani::proof]
#[kani::unwind(4)]
fn q_ms_compose_scalar() {
    let a: u8 = kani::any();
    let b: u16 = kani::any();
    assert!(a.mem_size() == size_of::<u8>() && a.heap_size() == 0 && a.value_size() == 1);
    let t = (a, b, a);
    assert!(t.heap_size() == 0 && t.value_size() == size_of::<(u8, u16, u8)>() && t.mem_size() == t.value_size() + t.heap_size());
    let o: Option<u16> = if kani::any() { Some(b) } else { None };
    assert!(o.heap_size() == 0 && o.mem_size() == size_of::<Option<u16>>());
    let r: Result<u8, u16> = if kani::any() { Ok(a) } else { Err(b) };
    assert!(r.heap_size() == 0 && r.mem_size() == size_of::<Result<u8, u16>>());
    let arr = [b, b];
    assert!(arr.heap_size() == 0 && arr.mem_size() == 4);
    let z: [u16; 0] = [];
    assert!(z.heap_size() == 0 && z.mem_size() == 0);
    let w = Wrapping(a);
    assert!(w.heap_size() == 0 && w.mem_size() == 1);
    let rg = a..a;
    assert!(rg.heap_size() == 0 && rg.mem_size() == 2);
    let rf = a..;
    assert!(rf.heap_size() == 0);
    let ri = a..=a;
    assert!(ri.heap_size() == 0);
    let refv: &u16 = &b;
    assert!(<&u16 as HeapSize>::heap_size(&refv) == 0 && <&u16 as MemSize>::mem_size(&refv) == size_of::<&u16>());
    let t10 = (a, a, a, a, a, a, a, a, a, a);
    assert!(t10.heap_size() == 0 && t10.mem_size() == 10);
}

// ---- C08/C09: String, Option/Result/Box/tuple/array/Wrapping/range of String ----------------------------
#[kani::proof]
#[kani::unwind(4)]
fn q_ms_alloc_string() {
    let c = any_cap(3);
    let s = String::with_capacity(c);
    assert!(s.heap_size() == s.capacity(), "String: reserved but unused capacity not counted");
    assert!(s.mem_size() == size_of::<String>() + s.capacity());
}
#[kani::proof]
#[kani::unwind(4)]
fn q_ms_wrappers() {
    let c = any_cap(2);
    let d = any_cap(2);
    let which: u8 = kani::any();
    match which {
        0 => { let o = Some(String::with_capacity(c)); let cap = o.as_ref().unwrap().capacity(); assert!(o.heap_size() == cap && o.mem_size() == size_of::<Option<String>>() + cap); }
        1 => { let n: Option<String> = None; assert!(n.heap_size() == 0); }
        2 => { let r: Result<String, u8> = Ok(String::with_capacity(c)); let cap = r.as_ref().unwrap().capacity(); assert!(r.heap_size() == cap); }
        3 => { let r: Result<u8, String> = Err(String::with_capacity(c)); let cap = r.as_ref().unwrap_err().capacity(); assert!(r.heap_size() == cap); }
        4 => { let t = (String::with_capacity(c), 7u8, String::with_capacity(d)); let e = t.0.capacity() + t.2.capacity(); assert!(t.heap_size() == e && t.mem_size() == size_of::<(String, u8, String)>() + e); }
        5 => { let a = [String::with_capacity(c), String::with_capacity(d)]; let e = a[0].capacity() + a[1].capacity(); assert!(a.heap_size() == e && a.mem_size() == 2 * size_of::<String>() + e); }
        6 => { let w = Wrapping(String::with_capacity(c)); assert!(w.heap_size() == w.0.capacity()); }
        7 => { let r = String::with_capacity(c)..String::with_capacity(d); assert!(r.heap_size() == r.start.capacity() + r.end.capacity()); }
        8 => { let b = Box::new(String::with_capacity(c)); assert!(b.heap_size() == size_of::<String>() + b.capacity(), "Box<T>: pointee's own size not counted"); assert!(b.mem_size() == size_of::<Box<String>>() + size_of::<String>() + b.capacity()); }
        _ => { let b = Box::new((7u16, 3u8)); assert!(b.heap_size() == size_of::<(u16, u8)>()); }
    }
}

// ---- C08/C09: Vec<T> = capacity * size_of::<T>() + element heap sizes, any spare capacity ---------------
#[kani::proof]
#[kani::unwind(4)]
fn q_ms_alloc_vec() {
    let c = any_cap(3);
    let mut v: Vec<u32> = Vec::with_capacity(c);
    if c > 0 && kani::any() { v.push(5); }
    assert!(v.heap_size() == v.capacity() * 4, "Vec: reserved but unused capacity not counted");
    assert!(v.mem_size() == size_of::<Vec<u32>>() + v.capacity() * 4);
    let e: Vec<u64> = Vec::new();
    assert!(e.heap_size() == 0);
}
#[kani::proof]
#[kani::unwind(4)]
fn q_ms_vec_string() {
    let c = any_cap(2);
    let mut v: Vec<String> = Vec::with_capacity(2);
    let n: usize = kani::any();
    kani::assume(n <= 2);
    let mut expect = 0usize;
    let mut i = 0;
    while i < n { let s = String::with_capacity(c + i); expect += s.capacity(); v.push(s); i += 1; }
    assert!(v.heap_size() == v.capacity() * size_of::<String>() + expect);
    // bulk helpers = element-wise sum, for the slice iterator and for a filtered iterator
    assert!(String::heap_size_sum_iter(|| v.iter()) == expect);
    assert!(String::heap_size_sum_exact_size_iter(|| v.iter()) == expect);
    assert!(String::value_size_sum_iter(v.iter()) == n * size_of::<String>());
    assert!(String::value_size_sum_exact_size_iter(v.iter()) == n * size_of::<String>());
    let skip_first = v.iter().skip(1);
    let exp_skip = if n >= 1 { expect - v[0].capacity() } else { 0 };
    assert!(String::heap_size_sum_iter(|| v.iter().skip(1)) == exp_skip);
    assert!(String::value_size_sum_iter(skip_first) == n.saturating_sub(1) * size_of::<String>());
}

// ---- C08: specialised bulk paths: tuples of boxes ---------------------------------------------------------
#[kani::proof]
#[kani::unwind(4)]
fn q_ms_bulk_tuple_box() {
    let c = any_cap(2);
    let n: usize = kani::any();
    kani::assume(n <= 2);
    let mut v: Vec<(u8, Box<String>)> = Vec::with_capacity(2);
    let mut expect = 0usize;
    let mut i = 0;
    while i < n { let s = String::with_capacity(c + i); expect += size_of::<String>() + s.capacity(); v.push((i as u8, Box::new(s))); i += 1; }
    type E = (u8, Box<String>);
    assert!(E::heap_size_sum_iter(|| v.iter()) == expect, "tuple bulk helper (iter) differs from element-wise sum");
    assert!(E::heap_size_sum_exact_size_iter(|| v.iter()) == expect, "tuple bulk helper (exact size) differs from element-wise sum");
    assert!(v.heap_size() == v.capacity() * size_of::<E>() + expect);
    let mut sum = 0; for e in v.iter() { sum += e.heap_size(); }
    assert!(sum == expect);
    // a chained iterator
    assert!(E::heap_size_sum_iter(|| v.iter().chain(v.iter())) == 2 * expect);
}

// ---- C08: the bulk helpers equal the element-wise sum for EVERY iterator, whatever its size_hint says --------
/// Wraps an iterator and reports an arbitrary size_hint that still honours the Iterator contract
/// (lower <= remaining <= upper, upper possibly None): from_fn, flatten, filter, chain, ... all fall in here.
struct AnyHint<I> { inner: I, rem: usize }
impl<I: Iterator> Iterator for AnyHint<I> {
    type Item = I::Item;
    fn next(&mut self) -> Option<I::Item> {
        let r = self.inner.next();
        if r.is_some() { self.rem -= 1; }
        r
    }
    fn size_hint(&self) -> (usize, Option<usize>) {
        let lo: usize = kani::any();
        kani::assume(lo <= self.rem);
        if kani::any() { (lo, None) } else { let hi: usize = kani::any(); kani::assume(hi >= self.rem); (lo, Some(hi)) }
    }
}
#[kani::proof]
#[kani::unwind(4)]
fn q_ms_any_hint() {
    let n: usize = kani::any();
    kani::assume(n <= 2);
    let c = any_cap(2);
    let mut u: Vec<u32> = Vec::with_capacity(2);
    let mut b: Vec<Box<u16>> = Vec::with_capacity(2);
    let mut s: Vec<String> = Vec::with_capacity(2);
    let mut expect_s = 0usize;
    let mut i = 0;
    while i < n {
        u.push(i as u32); b.push(Box::new(i as u16));
        let x = String::with_capacity(c + i); expect_s += x.capacity(); s.push(x);
        i += 1;
    }
    assert!(u32::value_size_sum_iter(AnyHint { inner: u.iter(), rem: n }) == n * 4, "value_size_sum_iter trusts size_hint instead of counting (Sized blanket impl)");
    assert!(u32::heap_size_sum_iter(|| AnyHint { inner: u.iter(), rem: n }) == 0);
    assert!(Box::<u16>::heap_size_sum_iter(|| AnyHint { inner: b.iter(), rem: n }) == n * 2, "Box bulk helper trusts size_hint instead of counting");
    assert!(Box::<u16>::value_size_sum_iter(AnyHint { inner: b.iter(), rem: n }) == n * size_of::<Box<u16>>());
    assert!(String::heap_size_sum_iter(|| AnyHint { inner: s.iter(), rem: n }) == expect_s, "String bulk helper trusts size_hint");
    assert!(String::value_size_sum_iter(AnyHint { inner: s.iter(), rem: n }) == n * size_of::<String>());
}

// ---- C08: arrays inside containers (SizedArrayFlatIterator), including length 0 ---------------------------
#[kani::proof]
#[kani::unwind(5)]
fn q_ms_array_flat() {
    let n: usize = kani::any();
    kani::assume(n <= 3);
    let mut z: Vec<[String; 0]> = Vec::with_capacity(3);
    let mut i = 0;
    while i < n { z.push([]); i += 1; }
    assert!(z.heap_size() == 0, "Vec of empty arrays: elements are zero-sized and hold nothing");
    let m: usize = kani::any();
    kani::assume(m <= 2);
    let mut v: Vec<[Box<u16>; 2]> = Vec::with_capacity(2);
    let mut j = 0;
    while j < m { v.push([Box::new(1), Box::new(2)]); j += 1; }
    let per = 2 * size_of::<u16>();
    assert!(v.heap_size() == v.capacity() * size_of::<[Box<u16>; 2]>() + m * per);
    type A = [Box<u16>; 2];
    assert!(A::heap_size_sum_iter(|| v.iter()) == m * per);
    assert!(A::heap_size_sum_exact_size_iter(|| v.iter()) == m * per);
}

// ---- C09: PathBuf / OsString hold capacity() bytes -----------------------------------------------------------
#[kani::proof]
#[kani::unwind(4)]
fn q_ms_alloc_pathbuf() {
    let c = any_cap(3);
    let p = PathBuf::with_capacity(c);
    assert!(p.heap_size() == p.capacity(), "PathBuf: reserved but unused capacity not counted");
    let o = std::ffi::OsString::with_capacity(c);
    assert!(o.heap_size() == o.capacity(), "OsString: reserved but unused capacity not counted");
}

// ---- C09: Box of sized, slice, str -----------------------------------------------------------------------------
#[kani::proof]
#[kani::unwind(4)]
fn q_ms_alloc_box() {
    let b = Box::new(7u64);
    assert!(b.heap_size() == 8);
    let s: Box<[u16]> = vec![1u16, 2, 3].into_boxed_slice();
    assert!(s.heap_size() == 6);
    let e: Box<[u64]> = Vec::new().into_boxed_slice();
    assert!(e.heap_size() == 0);
    let t: Box<str> = String::from("ab").into_boxed_str();
    assert!(t.heap_size() == 2);
}

// ---- C09: one level of nesting with spare capacity at both levels ------------------------------------------------
#[kani::proof]
#[kani::unwind(4)]
fn q_ms_alloc_nested() {
    let c = any_cap(2);
    let d = any_cap(2);
    let mut outer: Vec<Vec<u16>> = Vec::with_capacity(1 + c);
    outer.push(Vec::with_capacity(d));
    let expect = outer.capacity() * size_of::<Vec<u16>>() + outer[0].capacity() * 2;
    assert!(outer.heap_size() == expect);
    let o = Some(outer);
    assert!(o.heap_size() == expect);
    let t = (o, Wrapping(3u8));
    assert!(t.heap_size() == expect);
}

// ---- C09: BinaryHeap holds capacity()*size_of::<T>() bytes plus its elements, also when it is (or has become) empty ----
#[kani::proof]
#[kani::unwind(5)]
fn q_ms_alloc_binheap() {
    let c = any_cap(3);
    let n: usize = kani::any();
    kani::assume(n <= 2);
    let mut b: std::collections::BinaryHeap<u32> = std::collections::BinaryHeap::with_capacity(c);
    assert!(b.heap_size() == b.capacity() * 4, "BinaryHeap: reserved but unused capacity not counted");
    let mut i = 0;
    while i < n { b.push(i as u32); i += 1; }
    assert!(b.heap_size() == b.capacity() * 4);
    if kani::any() { b.clear(); }
    assert!(b.heap_size() == b.capacity() * 4, "BinaryHeap: an emptied heap keeps its buffer");
    let mut h: std::collections::BinaryHeap<Box<u16>> = std::collections::BinaryHeap::with_capacity(c);
    if kani::any() { h.push(Box::new(1)); }
    assert!(h.heap_size() == h.capacity() * size_of::<Box<u16>>() + h.len() * 2);
}

// ---- C08: a user type WITHOUT drop glue that still reports heap memory (an arena handle, an index into an external
//      block): containers must add up what their elements report, not what the type system lets them guess ----------
#[derive(Clone, Copy)]
struct Handle(u8);
impl HeapSize for Handle { fn heap_size(&self) -> usize { self.0 as usize } }
#[kani::proof]
#[kani::unwind(5)]
fn q_ms_user_nodrop() {
    let a: u8 = kani::any();
    let b: u8 = kani::any();
    kani::assume(a <= 9 && b <= 9);
    let sum = a as usize + b as usize;
    let arr = [Handle(a), Handle(b)];
    assert!(arr.heap_size() == sum, "array of drop-free elements: element heap sizes not added up");
    assert!(arr[..].heap_size() == sum, "slice of drop-free elements: element heap sizes not added up");
    let mut v: Vec<Handle> = Vec::with_capacity(2);
    v.push(Handle(a)); v.push(Handle(b));
    assert!(v.heap_size() == v.capacity() * size_of::<Handle>() + sum, "Vec of drop-free elements: element heap sizes not added up");
    assert!(Handle::heap_size_sum_iter(|| v.iter()) == sum && Handle::heap_size_sum_exact_size_iter(|| v.iter()) == sum);
    let bx: Box<[Handle]> = v.clone().into_boxed_slice();
    assert!(bx.heap_size() == 2 * size_of::<Handle>() + sum);
    assert!(Some(Handle(a)).heap_size() == a as usize && (Handle(a), Handle(b)).heap_size() == sum);
    assert!(Handle(a).mem_size() == size_of::<Handle>() + a as usize);
}

// ---- thorough -------------------------------------------------------------------------------------------------------
#[kani::proof]
#[kani::unwind(5)]
fn t_ms_nested() {
    let c = any_cap(2);
    let t = (vec![1u8, 2], [Some(String::with_capacity(c))], Wrapping(9u8));
    let e = t.0.capacity() + t.1[0].as_ref().unwrap().capacity();
    assert!(t.heap_size() == e);
    assert!(t.mem_size() == size_of::<(Vec<u8>, [Option<String>; 1], Wrapping<u8>)>() + e);
    let b: std::collections::BinaryHeap<u32> = std::collections::BinaryHeap::with_capacity(c);
    assert!(b.heap_size() == b.capacity() * 4);
}
#[kani::proof]
#[kani::unwind(5)]
fn t_ms_alloc_osstring_cstring() {
    let cs = std::ffi::CString::new(vec![b'a', b'b']).unwrap();
    assert!(cs.heap_size() == 3);
    let c = any_cap(3);
    let mut p = PathBuf::with_capacity(c);
    p.push("a");
    assert!(p.heap_size() == p.capacity());
}

// ---- C08/C09: sequences mixing variants: every element counts, wherever the empty ones sit ------------------
#[kani::proof]
#[kani::unwind(5)]
fn q_ms_seq_option_result() {
    let c = any_cap(2);
    let pat: [bool; 3] = kani::any();
    let mut v: Vec<Option<String>> = Vec::with_capacity(3);
    let mut expect = 0usize;
    let mut i = 0;
    while i < 3 {
        if pat[i] { let s = String::with_capacity(c + i); expect += s.capacity(); v.push(Some(s)); } else { v.push(None); }
        i += 1;
    }
    assert!(v.heap_size() == v.capacity() * size_of::<Option<String>>() + expect, "Vec<Option<String>>: an element after a None was not counted");
    type O = Option<String>;
    assert!(O::heap_size_sum_iter(|| v.iter()) == expect);
    assert!(O::heap_size_sum_exact_size_iter(|| v.iter()) == expect);
    let mut sum = 0; for e in v.iter() { sum += e.heap_size(); }
    assert!(sum == expect);
    let mut r: Vec<Result<String, Box<u16>>> = Vec::with_capacity(2);
    let mut expect_r = 0usize;
    let mut j = 0;
    while j < 2 {
        if pat[j] { let s = String::with_capacity(c); expect_r += s.capacity(); r.push(Ok(s)); } else { expect_r += 2; r.push(Err(Box::new(7))); }
        j += 1;
    }
    assert!(r.heap_size() == r.capacity() * size_of::<Result<String, Box<u16>>>() + expect_r);
    let a: [Option<Box<u32>>; 3] = [if pat[0] { Some(Box::new(1)) } else { None }, if pat[1] { Some(Box::new(2)) } else { None }, if pat[2] { Some(Box::new(3)) } else { None }];
    let cnt = pat[0] as usize + pat[1] as usize + pat[2] as usize;
    assert!(a.heap_size() == 4 * cnt);
}
