//! op_*: operations engine V cannot take (raw-pointer walks that edit the list while walking it).
use super::common::*;
use super::*;

// ---- clear: everything gone, size 0, cache usable --------------------------------------------------
fn body_clear(mut c: LruCache<u8, SV, BH>) {
    c.clear();
    coherent(&c);
    assert!(c.len() == 0 && c.current_size() == 0 && c.is_empty());
    assert!(c.seal.get().next == c.seal && c.seal.get().prev == c.seal);
    // usable afterwards
    link_new(&mut c, UnhingedEntry::new(5u8, SV(2)));
    coherent(&c);
    assert!(c.len() == 1 && order(&c).0[0] == 5);
}
#[kani::proof]
#[kani::unwind(6)]
fn q_op_clear() { body_clear(state_q3()); }
#[kani::proof]
#[kani::unwind(6)]
fn t_op_clear() { body_clear(state_t(3)); }

// ---- get_lru / peek_lru / peek_mru: pure pointer operations on the two ends, for every length 0..3 (singleton!) ----
#[kani::proof]
#[kani::unwind(6)]
fn q_op_ends() {
    let n: u8 = kani::any();
    kani::assume(n <= 3);
    let mut c = prebuilt(n, 4);
    if n >= 2 && kani::any() { c.touch(&0); }
    let o = order(&c);
    let size_before = c.current_size();
    match c.peek_lru() { Some((k, v)) => assert!(o.1 > 0 && *k == o.0[0] && v.0 == 8 + *k as usize), None => assert!(o.1 == 0) }
    match c.peek_mru() { Some((k, v)) => assert!(o.1 > 0 && *k == o.0[o.1 - 1] && v.0 == 8 + *k as usize), None => assert!(o.1 == 0) }
    match c.get_lru() { Some((k, v)) => assert!(o.1 > 0 && *k == o.0[0] && v.0 == 8 + *k as usize), None => assert!(o.1 == 0) }
    coherent(&c);
    if o.1 > 0 { assert!(order(&c) == promoted(o, 0), "get_lru did not move the least-recently-used entry to the front"); } else { assert!(order(&c) == o); }
    assert!(c.current_size() == size_before);
}

// ---- retain: predicate called once per entry in LRU order with the real key/value; exactly the
//      rejected entries leave; survivors keep their relative order; sizes follow (C15) ---------------
fn body_retain(mut c: LruCache<u8, SV, BH>) {
    let o = order(&c);
    let size_before = c.current_size();
    let keep: [bool; N] = kani::any();
    let mut calls = 0usize;
    let mut seen = [255u8; N];
    let mut ok_vals = true;
    c.retain(|k, v| {
        if calls < N { seen[calls] = *k; }
        if v.0 != 8 + *k as usize { ok_vals = false; }
        calls += 1;
        keep[*k as usize]
    });
    assert!(ok_vals, "predicate saw a value that is not the entry's value");
    assert!(calls == o.1, "predicate not called exactly once per entry");
    let mut j = 0;
    while j < o.1 { assert!(seen[j] == o.0[j], "predicate not called in LRU -> MRU order"); j += 1; }
    coherent(&c);
    // expected survivors, in unchanged relative order
    let mut exp = [255u8; N];
    let mut m = 0usize;
    let mut removed_size = 0usize;
    let mut i = 0;
    while i < o.1 {
        if keep[o.0[i] as usize] { exp[m] = o.0[i]; m += 1; } else { removed_size += E + 8 + o.0[i] as usize; }
        i += 1;
    }
    let o2 = order(&c);
    assert!(o2.1 == m && o2.0 == exp, "survivors are not exactly the accepted entries in unchanged order");
    assert!(c.len() == m);
    assert!(c.current_size() == size_before - removed_size);
}
#[kani::proof]
#[kani::unwind(6)]
fn q_op_retain() { nondet(false, true); body_retain(state_q3()); }
#[kani::proof]
#[kani::unwind(6)]
fn q_op_retain_small() {
    let n: u8 = kani::any();
    kani::assume(n <= 1);
    body_retain(prebuilt(n, 4));
}
#[kani::proof]
#[kani::unwind(6)]
fn t_op_retain() { body_retain(state_t(3)); }

// ---- clone: equal (entries, order, recorded sizes, limit), capacity >= source, source untouched,
//      no shared nodes (C14) -------------------------------------------------------------------------
fn body_clone(c: LruCache<u8, SV, BH>) {
    let o = order(&c);
    let fp = fingerprint(&c);
    let d = c.clone();
    assert!(fingerprint(&c) == fp, "clone() wrote to the source");
    coherent(&c);
    coherent(&d);
    exact(&c);
    assert!(order(&d) == o, "clone has different entries or a different recency order");
    assert!(d.current_size() == c.current_size() && d.max_size() == c.max_size());
    assert!(d.capacity() >= c.capacity());
    assert!(d.len() == c.len());
    assert!(d.seal != c.seal);
    // no node of the clone lives in the source's table and vice versa
    let mut p = d.seal.get().prev;
    let mut cnt = 0;
    while p != d.seal {
        assert!(cnt < N);
        assert!(!c.table.owns(p.get() as *const Entry<u8, SV>), "clone shares a node with its source");
        // values were copied
        // values were copied (SV::clone sheds one byte of 'spare capacity', like String::clone)
        assert!(unsafe { p.get().value() }.0 + 1 == 8 + unsafe { *p.get().key() } as usize);
        // ... and the recorded size is the source's (C14: same current_size)
        assert!(p.get().size == E + 8 + unsafe { *p.get().key() } as usize);
        cnt += 1;
        p = p.get().prev;
    }
}
#[kani::proof]
#[kani::unwind(6)]
fn q_op_clone() { body_clone(state_q3()); }
#[kani::proof]
#[kani::unwind(6)]
fn q_op_clone_small() {
    let n: u8 = kani::any();
    kani::assume(n <= 1);
    body_clone(prebuilt(n, 2));
}
// clone under the colliding hasher: every key has the same hash, the clone still holds every entry, in order (seed C14-i:
// de-duplication by hash instead of Eq)
#[kani::proof]
#[kani::unwind(6)]
fn q_op_clone_collide() {
    let c: LruCache<u8, SV, CH> = prebuilt_in::<CH>(2, 4);
    let o = order(&c);
    let size = c.current_size();
    let d = c.clone();
    coherent(&d);
    assert!(order(&d) == o, "clone under a colliding hasher has different entries or a different recency order");
    assert!(d.len() == c.len() && d.current_size() == size && d.max_size() == c.max_size());
    assert!(order(&c) == o);
}
#[kani::proof]
#[kani::unwind(6)]
fn t_op_clone() { body_clone(state_t(3)); }

// ---- clone then diverge: one L1 / K-only operation on either side leaves the other untouched, and a
//      removal in the clone subtracts the copied recorded size (C14) ---------------------------------
fn diverge(x: &mut LruCache<u8, SV, BH>, which: u8) {
    match which {
        0 => { let k: u8 = kani::any(); kani::assume(k < 3); x.touch(&k); }
        1 => { let k: u8 = kani::any(); kani::assume(k < 3); let _ = x.remove_entry(&k); }
        2 => { let _ = x.try_reallocate(4); }
        3 => { x.clear(); }
        _ => { x.retain(|k, _| *k != 1); }
    }
}
fn body_clone_diverge(mut c: LruCache<u8, SV, BH>, which: u8, side: bool) {
    let mut d = c.clone();
    let fc = fingerprint(&c);
    let fd = fingerprint(&d);
    if side {
        diverge(&mut d, which);
        assert!(fingerprint(&c) == fc, "operation on the clone changed the source");
    } else {
        diverge(&mut c, which);
        assert!(fingerprint(&d) == fd, "operation on the source changed the clone");
    }
    coherent(&c);
    coherent(&d);
}
#[kani::proof]
#[kani::unwind(6)]
fn q_op_clone_diverge_remove() { body_clone_diverge(prebuilt(2, 2), 1, kani::any()); }
#[kani::proof]
#[kani::unwind(6)]
fn q_op_clone_diverge_realloc() { body_clone_diverge(prebuilt(2, 2), 2, kani::any()); }
#[kani::proof]
#[kani::unwind(6)]
fn t_op_clone_diverge_touch() { body_clone_diverge(prebuilt(3, 4), 0, kani::any()); }
#[kani::proof]
#[kani::unwind(6)]
fn t_op_clone_diverge_clear() { body_clone_diverge(prebuilt(2, 4), 3, kani::any()); }
#[kani::proof]
#[kani::unwind(6)]
fn t_op_clone_diverge_retain() { body_clone_diverge(prebuilt(2, 4), 4, kani::any()); }
