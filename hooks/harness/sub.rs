//! sub_*: conformance of the L1 functions to the substrate contracts that engine V assumes (A-SUB).
//! q_* = quick tier (concrete history, first-free placement), t_* = thorough tier (symbolic length and
//! history, non-deterministic bucket placement and tombstones).
use super::common::*;
use super::*;

// ---- lru_ptr / mru_ptr: Some(p) designating list[0] / list.last() iff non-empty ----------------
fn body_lru_mru_ptr(c: LruCache<u8, SV, BH>) {
    coherent(&c);
    let o = order(&c);
    match c.lru_ptr() { Some(p) => { assert!(o.1 > 0); assert!(unsafe { *p.get().key() } == o.0[0]); } None => assert!(o.1 == 0) }
    match c.mru_ptr() { Some(p) => { assert!(o.1 > 0); assert!(unsafe { *p.get().key() } == o.0[o.1 - 1]); } None => assert!(o.1 == 0) }
}
#[kani::proof]
#[kani::unwind(6)]
fn q_sub_lru_mru_ptr() {
    let n: u8 = kani::any();
    kani::assume(n <= 2);
    body_lru_mru_ptr(prebuilt(n, 4));
}
#[kani::proof]
#[kani::unwind(6)]
fn t_sub_lru_mru_ptr() { body_lru_mru_ptr(state_t(3)); }

// ---- insert_into_table_with_hash + set_head: pending entry becomes the MRU entry ---------------
fn body_insert_set_head(mut c: LruCache<u8, SV, BH>) {
    let o = order(&c);
    let size_before = c.current_size();
    let cap_before = c.capacity();
    let u = UnhingedEntry::new(9u8, SV(1));
    let sz = u.size();
    let e = Entry::new(u, c.seal, c.seal.get().next);
    let h = crate::make_insert_hash::<u8, BH>(&c.hash_builder, &9u8);
    let room = c.table.growth_left() > 0;
    match c.insert_into_table_with_hash(h, e) {
        Ok(p) => {
            assert!(room);
            // pending: in the table, not yet linked; list, sizes, capacity unchanged
            assert!(order(&c) == o);
            assert!(c.current_size() == size_before && c.capacity() == cap_before);
            assert!(unsafe { *p.get().key() } == 9);
            c.current_size += sz;
            c.set_head(p);
            coherent(&c);
            let o2 = order(&c);
            assert!(o2.1 == o.1 + 1 && o2.0[o.1] == 9);
            let mut j = 0; while j < o.1 { assert!(o2.0[j] == o.0[j]); j += 1; }
            assert!(c.capacity() == cap_before);
        }
        Err(back) => {
            assert!(!room);
            assert!(unsafe { *back.key() } == 9 && back.size == sz);
            coherent(&c);
            assert!(order(&c) == o && c.current_size() == size_before && c.capacity() == cap_before);
        }
    }
}
#[kani::proof]
#[kani::unwind(6)]
fn q_sub_insert_set_head() {
    let cap: usize = kani::any();
    kani::assume(cap == 2 || cap == 4);     // full table and table with room
    let mut c = prebuilt(2, cap);
    c.touch(&0);
    body_insert_set_head(c);
}
// ---- the same contracts on the corner states the 3-entry quick harnesses skip: empty and singleton caches --------
fn small() -> LruCache<u8, SV, BH> { let n: u8 = kani::any(); kani::assume(n <= 1); prebuilt(n, 4) }
#[kani::proof]
#[kani::unwind(6)]
fn q_sub_small_insert() { body_insert_set_head(small()); }       // first entry of an empty list / second entry
#[kani::proof]
#[kani::unwind(6)]
fn q_sub_small_remove() { body_remove_entry(small()); }           // the only entry leaves: the seal must close on itself
#[kani::proof]
#[kani::unwind(6)]
fn q_sub_small_realloc() {
    let c = small();
    let newcap: usize = kani::any();
    kani::assume(newcap >= c.len() && newcap <= 2);
    body_realloc(c, newcap);
}
#[kani::proof]
#[kani::unwind(6)]
fn t_sub_insert_set_head() { body_insert_set_head(state_t(3)); }

// ---- touch_ptr via touch: list' = list.remove(i).push(list[i]) at every position -----------------
fn body_touch_ptr(mut c: LruCache<u8, SV, BH>) {
    let o = order(&c);
    let size_before = c.current_size();
    let cap_before = c.capacity();
    let k: u8 = kani::any();
    kani::assume(k < 4);
    c.touch(&k);
    coherent(&c);
    match index_in(o, k) {
        Some(i) => assert!(order(&c) == promoted(o, i)),
        None => assert!(order(&c) == o),
    }
    assert!(c.current_size() == size_before && c.capacity() == cap_before);
}
#[kani::proof]
#[kani::unwind(6)]
fn q_sub_touch_ptr() { body_touch_ptr(state_q3()); }
#[kani::proof]
#[kani::unwind(6)]
fn q_sub_touch_ptr_only() { body_touch_ptr(prebuilt(1, 4)); }
#[kani::proof]
#[kani::unwind(6)]
fn t_sub_touch_ptr() { body_touch_ptr(state_t(3)); }

// ---- remove_from_table + remove_metadata (the core of every departure) ---------------------------
fn body_remove_entry(mut c: LruCache<u8, SV, BH>) {
    let o = order(&c);
    let a = addrs(&c);
    let seal_before = c.seal;
    let size_before = c.current_size();
    let k: u8 = kani::any();
    kani::assume(k < 4);
    let r = c.remove_entry(&k);
    coherent(&c);
    assert!(c.seal == seal_before, "the seal moved");
    // A-NODE (assumed by the Verus proof of retain): the entries that stay keep their addresses
    match index_in(o, k) {
        Some(i) => assert!(same_addrs(addrs(&c), removed_addr(a, i)), "a removal moved another entry"),
        None => assert!(same_addrs(addrs(&c), a), "a failed removal moved an entry"),
    }
    match index_in(o, k) {
        Some(i) => {
            let (rk, rv) = r.unwrap();
            assert!(rk == k && rv.0 == 8 + k as usize);
            assert!(order(&c) == removed(o, i));
            assert!(c.current_size() == size_before - (E + 8 + k as usize));
        }
        None => { assert!(r.is_none()); assert!(order(&c) == o && c.current_size() == size_before); }
    }
}
#[kani::proof]
#[kani::unwind(6)]
fn q_sub_remove_entry() { nondet(false, true); body_remove_entry(state_q3()); }
#[kani::proof]
#[kani::unwind(6)]
fn t_sub_remove_entry() { body_remove_entry(state_t(3)); }

// ---- get_mut_from_table / get_from_table: the bucket of that key, nothing moves ------------------
fn body_get_from_table(mut c: LruCache<u8, SV, BH>) {
    let o = order(&c);
    let k: u8 = kani::any();
    kani::assume(k < 4);
    let present = index_in(o, k).is_some();
    match c.get_from_table(&k) {
        Some(e) => { assert!(present); assert!(unsafe { *e.key() } == k && unsafe { e.value() }.0 == 8 + k as usize && e.size == E + 8 + k as usize); }
        None => assert!(!present),
    }
    let tbl = &c.table as *const table::RawTable<Entry<u8, SV>>;
    match c.get_mut_from_table(&k) {
        Some(e) => {
            assert!(present);
            assert!(unsafe { *e.key() } == k);
            // R3: the pointer made from the reference designates a full bucket of the table
            let p = EntryPtr::new(e as *mut Entry<u8, SV>);
            assert!(unsafe { (*tbl).owns(p.get() as *const Entry<u8, SV>) });
        }
        None => assert!(!present),
    }
    coherent(&c);
    assert!(order(&c) == o);
}
#[kani::proof]
#[kani::unwind(6)]
fn q_sub_get_from_table() { body_get_from_table(state_q3()); }
#[kani::proof]
#[kani::unwind(6)]
fn t_sub_get_from_table() { body_get_from_table(state_t(3)); }

// ---- try_reallocate: entries, order and sizes travel; links repaired on both sides ----------------
fn body_realloc(mut c: LruCache<u8, SV, BH>, newcap: usize) {
    let o = order(&c);
    let size_before = c.current_size();
    let r = c.try_reallocate(newcap);
    assert!(r.is_ok());
    coherent(&c);
    exact(&c);
    assert!(order(&c) == o);
    assert!(c.current_size() == size_before);
    assert!(c.capacity() >= newcap);
}
#[kani::proof]
#[kani::unwind(6)]
fn q_sub_realloc_grow() {
    let mut c = prebuilt(3, 3);
    c.touch(&1);                       // order 0, 2, 1: bucket order differs from recency order
    body_realloc(c, 4);
}
#[kani::proof]
#[kani::unwind(6)]
fn q_sub_realloc_shrink() {
    nondet(false, true);
    let mut c = prebuilt(3, 4);
    let _ = c.remove_entry(&1);        // may leave a tombstone; remaining entries are not adjacent buckets
    body_realloc(c, 2);
}
#[kani::proof]
#[kani::unwind(6)]
fn t_sub_realloc() {
    nondet(true, true);
    let n: u8 = kani::any();
    kani::assume(n <= 3);
    let mut c = prebuilt(n, 4);
    if n >= 2 && kani::any() { let k: u8 = kani::any(); kani::assume(k < n); c.touch(&k); }
    if n >= 1 && kani::any() { let k: u8 = kani::any(); kani::assume(k < n); let _ = c.remove_entry(&k); }
    let newcap: usize = kani::any();
    kani::assume(newcap >= c.len() && newcap <= 4);
    body_realloc(c, newcap);
}

// ---- try_reallocate refused by the allocator: nothing changes --------------------------------------
fn body_realloc_fail(mut c: LruCache<u8, SV, BH>) {
    let o = order(&c);
    let size_before = c.current_size();
    let cap_before = c.capacity();
    let seal_before = c.seal;
    let lru_before = c.seal.get().prev;
    unsafe { table::NONDET_ALLOC_FAIL = true; }
    let newcap: usize = kani::any();
    kani::assume(newcap >= 2 && newcap <= 6);
    let r = c.try_reallocate(newcap);
    unsafe { table::NONDET_ALLOC_FAIL = false; }
    coherent(&c);
    assert!(order(&c) == o && c.current_size() == size_before);
    if r.is_err() {
        assert!(c.capacity() == cap_before && c.seal == seal_before && c.seal.get().prev == lru_before);
    } else {
        assert!(newcap <= 4 && c.capacity() >= newcap);
    }
}
#[kani::proof]
#[kani::unwind(6)]
fn q_sub_realloc_fail() { body_realloc_fail(prebuilt(2, 2)); }
#[kani::proof]
#[kani::unwind(6)]
fn t_sub_realloc_fail() { body_realloc_fail(state_t(2)); }

// ---- with_table_and_hasher / new_seal: an empty, coherent cache ------------------------------------
#[kani::proof]
#[kani::unwind(6)]
fn q_sub_new_seal() {
    let cap: usize = kani::any();
    kani::assume(cap <= 4);
    let m: usize = kani::any();
    let c: LruCache<u8, SV, BH> = LruCache::with_capacity_and_hasher(m, cap, BH::default());
    coherent(&c);
    assert!(c.len() == 0 && c.current_size() == 0 && c.max_size() == m && c.capacity() >= cap);
    assert!(c.seal.get().next == c.seal && c.seal.get().prev == c.seal);
    assert!(c.lru_ptr().is_none() && c.mru_ptr().is_none());
}

// ---- colliding hasher: every key has the same hash; lookups still find the right bucket --------------
#[kani::proof]
#[kani::unwind(6)]
fn q_sub_collide() {
    let mut c: LruCache<u8, SV, CH> = prebuilt_in::<CH>(3, 4);
    coherent(&c);
    let k: u8 = kani::any();
    kani::assume(k < 4);
    let r = c.remove_entry(&k);
    coherent(&c);
    assert!(r.is_some() == (k < 3));
    if let Some((rk, _)) = r { assert!(rk == k); }
    assert!(c.len() == if k < 3 { 2 } else { 3 });
}

// ---- shrink_to: never raises the capacity, keeps it >= max(len, min) unless it already was below,
//      transparent (C13); tombstones and the size of the fresh table are non-deterministic ------------
#[kani::proof]
#[kani::unwind(6)]
fn t_sub_shrink_to() {
    nondet(false, true);
    unsafe { table::NONDET_CAP = true; }
    let mut c = prebuilt(3, 4);
    let _ = c.remove_entry(&1);
    let o = order(&c);
    let size_before = c.current_size();
    let cap_before = c.capacity();
    let min: usize = kani::any();
    kani::assume(min <= 4);
    c.shrink_to(min);
    coherent(&c);
    assert!(order(&c) == o && c.current_size() == size_before);
    assert!(c.capacity() <= cap_before, "shrink_to raised the capacity");
    let want = if min > 2 { min } else { 2 };
    assert!(c.capacity() >= want || c.capacity() == cap_before);
}

// ---- hash routing: every hash of a key must be computed the same way ---------------------------------
// A BuildHasher may override `hash_one`; here it deliberately differs from the streaming hasher, so a
// cache that files keys under one and looks them up under the other is caught by the double's monitor.
#[derive(Default, Clone)]
pub struct SplitBH;
impl BuildHasher for SplitBH {
    type Hasher = IdHasher;
    fn build_hasher(&self) -> IdHasher { IdHasher(0) }
    fn hash_one<T: Hash>(&self, x: T) -> u64 where Self: Sized {
        let mut h = IdHasher(0);
        x.hash(&mut h);
        h.finish() ^ 0x55
    }
}
#[kani::proof]
#[kani::unwind(6)]
fn q_sub_split_hasher() {
    let mut c: LruCache<u8, SV, SplitBH> = prebuilt_in::<SplitBH>(2, 4);
    coherent(&c);
    let k: u8 = kani::any();
    kani::assume(k < 3);
    assert!(c.contains(&k) == (k < 2));
    assert!(c.peek(&k).is_some() == (k < 2));
    let _ = c.try_reallocate(4);
    coherent(&c);
    let r = c.remove_entry(&k);
    assert!(r.is_some() == (k < 2));
    coherent(&c);
}

// ---- the state builder itself: states built by `link_new` satisfy the representation invariant -------------
#[kani::proof]
#[kani::unwind(6)]
fn q_sub_builder() {
    let n: u8 = kani::any();
    kani::assume(n <= 3);
    let c = prebuilt(n, 4);
    coherent(&c);
    exact(&c);
    let o = order(&c);
    assert!(o.1 == n as usize);
    let mut i = 0; while i < o.1 { assert!(o.0[i] == i as u8); i += 1; }
}
// ---- insert_untracked (used by Clone::clone): stores and links as MRU; the caller accounts the size ----------
#[kani::proof]
#[kani::unwind(6)]
fn q_sub_insert_untracked() {
    let mut c = prebuilt(2, 4);
    let u = UnhingedEntry::new(9u8, SV(1));
    c.current_size += u.size();
    let e = Entry::new(u, c.seal, c.seal.get().next);
    c.insert_untracked(e);
    coherent(&c);
    let o = order(&c);
    assert!(o.1 == 3 && o.0[0] == 0 && o.0[1] == 1 && o.0[2] == 9);
}
