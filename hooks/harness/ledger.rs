//! ledger_*: identity-level ownership tracking (C06) and forget_*: leaked iterators (C17).
//! Every key/value is `T(id)`; LEDGER[id] in {0 unborn, 1 live, 2 dropped}.  Drop asserts live->dropped
//! (a double drop is a failed assertion), every access through Hash/Eq/HeapSize/Clone asserts live
//! (use after drop / after move-out of a dropped object).  At the end of a scenario every created id
//! must be dropped (no leak) unless the scenario leaks on purpose.
use super::common::*;
use super::*;

pub const IDS: usize = 16;
pub static mut LEDGER: [u8; IDS] = [0; IDS];
pub struct T { pub id: u8, pub key: u8 }
impl T {
    pub fn new(id: u8) -> T { T::probe(id, id) }
    /// an object with its own identity `id` that compares equal to (and hashes like) key `key`
    pub fn probe(id: u8, key: u8) -> T { unsafe { assert!(LEDGER[id as usize] == 0); LEDGER[id as usize] = 1; } T { id, key } }
    fn live(&self) { unsafe { assert!(LEDGER[self.id as usize] == 1, "use of a key/value that is not live (dropped or moved out)"); } }
}
impl Drop for T { fn drop(&mut self) { unsafe { assert!(LEDGER[self.id as usize] == 1, "double drop"); LEDGER[self.id as usize] = 2; } } }
impl HeapSize for T { fn heap_size(&self) -> usize { self.live(); 0 } }
impl PartialEq for T { fn eq(&self, o: &T) -> bool { self.live(); o.live(); self.key == o.key } }
impl Eq for T {}
impl Hash for T { fn hash<H: Hasher>(&self, h: &mut H) { self.live(); h.write_u8(self.key) } }
/// a clone gets a fresh identity: id + 8
impl Clone for T { fn clone(&self) -> T { self.live(); T::probe(self.id + 8, self.key) } }

fn state(id: u8) -> u8 { unsafe { LEDGER[id as usize] } }

/// keys T(0..n), values T(4..4+n); L1 primitives only
pub fn prebuilt_t(n: u8, cap: usize) -> LruCache<T, T, BH> {
    let mut c: LruCache<T, T, BH> = LruCache::with_capacity_and_hasher(usize::MAX / 2, cap, BH::default());
    let mut k = 0u8;
    while k < n {
        link_new(&mut c, UnhingedEntry::new(T::new(k), T::new(4 + k)));
        k += 1;
    }
    c
}
fn all_dropped(n: u8) {
    let mut k = 0u8;
    while k < n { assert!(state(k) == 2 && state(4 + k) == 2, "a key or value was leaked (neither dropped nor handed back)"); k += 1; }
}

// ---- removal core: the pair comes out by value exactly once ------------------------------------------
#[kani::proof]
#[kani::unwind(6)]
fn q_ledger_remove() {
    let mut c = prebuilt_t(2, 4);
    let k: u8 = kani::any();
    kani::assume(k < 3);
    let probe = T::probe(3, k);                  // a key object of our own (identity 3) equal to key k
    let r = c.remove_entry(&probe);
    drop(probe);
    if k < 2 {
        let (rk, rv) = r.unwrap();
        assert!(rk.id == k && rv.id == 4 + k);
        assert!(state(k) == 1 && state(4 + k) == 1, "removed pair is not live when handed back");
        drop(rk); drop(rv);
        assert!(state(k) == 2 && state(4 + k) == 2);
    } else {
        assert!(r.is_none());
    }
    coherent(&c);
    drop(c);
    all_dropped(2);
}

// ---- retain / clear / drop of the cache ---------------------------------------------------------------
#[kani::proof]
#[kani::unwind(6)]
fn q_ledger_retain() {
    let mut c = prebuilt_t(2, 4);
    let keep: [bool; 2] = kani::any();
    c.retain(|k, _| keep[k.key as usize]);
    let mut k = 0u8;
    while k < 2 {
        if keep[k as usize] { assert!(state(k) == 1 && state(4 + k) == 1, "a retained entry was dropped"); }
        else { assert!(state(k) == 2 && state(4 + k) == 2, "a rejected entry was not dropped"); }
        k += 1;
    }
    drop(c);
    all_dropped(2);
}
#[kani::proof]
#[kani::unwind(6)]
fn q_ledger_clear_drop() {
    let mut c = prebuilt_t(2, 4);
    if kani::any() { c.clear(); all_dropped(2); assert!(c.len() == 0); }
    drop(c);
    all_dropped(2);
}

// ---- reallocation moves entries by value: nothing dropped, nothing duplicated ---------------------------
#[kani::proof]
#[kani::unwind(6)]
fn q_ledger_realloc() {
    let mut c = prebuilt_t(2, 2);
    let newcap: usize = kani::any();
    kani::assume(newcap >= 2 && newcap <= 4);
    let _ = c.try_reallocate(newcap);
    assert!(state(0) == 1 && state(1) == 1 && state(4) == 1 && state(5) == 1, "reallocation dropped an entry");
    coherent(&c);
    drop(c);
    all_dropped(2);
}

// ---- clone: each side owns its own copies -----------------------------------------------------------------
#[kani::proof]
#[kani::unwind(6)]
fn q_ledger_clone() {
    let c = prebuilt_t(2, 2);
    let d = c.clone();
    // clones have ids +8
    assert!(state(8) == 1 && state(9) == 1 && state(12) == 1 && state(13) == 1);
    if kani::any() { drop(c); all_dropped(2); assert!(state(8) == 1 && state(12) == 1); drop(d); }
    else { drop(d); assert!(state(8) == 2 && state(9) == 2 && state(12) == 2 && state(13) == 2); assert!(state(0) == 1 && state(4) == 1); drop(c); }
    all_dropped(2);
    assert!(state(8) == 2 && state(9) == 2 && state(12) == 2 && state(13) == 2);
}

// ---- owning iterators consumed j from the front and k from the back, then dropped ----------------------------
fn consume<I: DoubleEndedIterator>(it: &mut I, steps: usize) -> usize {
    let mut got = 0;
    let mut s = 0;
    while s < steps {
        if kani::any() {
            let r = if kani::any() { it.next() } else { it.next_back() };
            if let Some(x) = r { got += 1; drop(x); }
        }
        s += 1;
    }
    got
}
#[kani::proof]
#[kani::unwind(6)]
fn q_ledger_drain() {
    let mut c = prebuilt_t(2, 4);
    {
        let mut d = c.drain();
        let _ = consume(&mut d, 3);
    }
    all_dropped(2);
    assert!(c.len() == 0 && c.current_size() == 0);
    coherent(&c);
    drop(c);
    all_dropped(2);
}
#[kani::proof]
#[kani::unwind(6)]
fn q_ledger_into_iter() {
    let c = prebuilt_t(2, 4);
    let kind: u8 = kani::any();
    match kind {
        0 => { let mut it = c.into_iter(); let _ = consume(&mut it, 3); }
        1 => { let mut it = c.into_keys(); let _ = consume(&mut it, 3); }
        _ => { let mut it = c.into_values(); let _ = consume(&mut it, 3); }
    }
    all_dropped(2);
}

// ---- C17: leaking an iterator can only leak ------------------------------------------------------------------
fn no_double_drop_after(mut c: LruCache<T, T, BH>) {
    // the cache must remain a valid, usable cache: walk it, look something up, drop it
    coherent(&c);
    let probe = T::probe(3, 0);
    let _ = c.peek(&probe).is_some();
    drop(probe);
    c.clear();
    coherent(&c);
    drop(c);
}
#[kani::proof]
#[kani::unwind(6)]
fn q_forget_drain() {
    let mut c = prebuilt_t(2, 4);
    {
        let mut d = c.drain();
        let _ = consume(&mut d, 2);       // every prefix of fronts/backs up to 2 steps, yielded pairs dropped by us
        std::mem::forget(d);
    }
    no_double_drop_after(c);
}
#[kani::proof]
#[kani::unwind(6)]
fn q_forget_drain_first() {
    // the design-time counterexample: one next(), forget, drop the pair, drop the cache
    let mut c = prebuilt_t(2, 4);
    {
        let mut d = c.drain();
        let first = d.next();
        std::mem::forget(d);
        drop(first);
    }
    drop(c);
}
#[kani::proof]
#[kani::unwind(6)]
fn q_forget_owning() {
    let c = prebuilt_t(2, 4);
    let kind: u8 = kani::any();
    match kind {
        0 => { let mut it = c.into_iter(); let _ = consume(&mut it, 2); std::mem::forget(it); }
        1 => { let mut it = c.into_keys(); let _ = consume(&mut it, 2); std::mem::forget(it); }
        _ => { let mut it = c.into_values(); let _ = consume(&mut it, 2); std::mem::forget(it); }
    }
    // whatever was not yielded is leaked with the cache: nothing may be dropped twice (checked by Drop)
}
#[kani::proof]
#[kani::unwind(6)]
fn q_forget_borrowing() {
    let c = prebuilt_t(2, 4);
    {
        let mut it = c.iter();
        if kani::any() { let _ = it.next(); }
        if kani::any() { let _ = it.next_back(); }
        std::mem::forget(it);
    }
    no_double_drop_after(c);
    all_dropped(2);
}

// ---- key/value types of which only one has a destructor (clear / drop / drain must still drop it) ----------
fn prebuilt_mixed_v(n: u8) -> LruCache<u8, T, BH> {
    let mut c: LruCache<u8, T, BH> = LruCache::with_capacity_and_hasher(usize::MAX / 2, 4, BH::default());
    let mut k = 0u8;
    while k < n {
        link_new(&mut c, UnhingedEntry::new(k, T::new(4 + k)));
        k += 1;
    }
    c
}
fn prebuilt_mixed_k(n: u8) -> LruCache<T, u8, BH> {
    let mut c: LruCache<T, u8, BH> = LruCache::with_capacity_and_hasher(usize::MAX / 2, 4, BH::default());
    let mut k = 0u8;
    while k < n {
        link_new(&mut c, UnhingedEntry::new(T::new(k), k));
        k += 1;
    }
    c
}
#[kani::proof]
#[kani::unwind(6)]
fn q_ledger_clear_mixed() {
    let which: u8 = kani::any();
    if kani::any() {
        let mut c = prebuilt_mixed_v(2);
        match which { 0 => c.clear(), 1 => { let _ = c.drain(); } 2 => c.retain(|_, _| false), _ => { drop(c); assert!(state(4) == 2 && state(5) == 2); return; } }
        assert!(state(4) == 2 && state(5) == 2, "values were not dropped although keys need no destructor");
        assert!(c.len() == 0);
    } else {
        let mut c = prebuilt_mixed_k(2);
        match which { 0 => c.clear(), 1 => { let _ = c.drain(); } 2 => c.retain(|_, _| false), _ => { drop(c); assert!(state(0) == 2 && state(1) == 2); return; } }
        assert!(state(0) == 2 && state(1) == 2, "keys were not dropped although values need no destructor");
        assert!(c.len() == 0);
    }
}

// ---- C17 / C12 / C06 with key/value types of which only one has a destructor ---------------------------------
// (code that consults mem::needs_drop must ask about the pair, not about one half)
#[kani::proof]
#[kani::unwind(6)]
fn q_forget_mixed() {
    if kani::any() {
        let mut c = prebuilt_mixed_v(2);
        {
            let mut d = c.drain();
            let _ = consume(&mut d, 2);
            std::mem::forget(d);
        }
        // yielded values were dropped by us; the cache must not drop them again, and must still be a cache
        coherent(&c);
        let probe = kani::any::<u8>() % 3;
        let _ = c.peek(&probe).is_some();       // still usable: every entry it lists must be live
        c.clear();
        drop(c);
    } else {
        let mut c = prebuilt_mixed_k(2);
        {
            let mut d = c.drain();
            let _ = consume(&mut d, 2);
            std::mem::forget(d);
        }
        coherent(&c);
        let probe = T::probe(3, 0);
        let _ = c.peek(&probe).is_some();       // still usable: every entry it lists must be live (Eq asserts liveness)
        drop(probe);
        c.clear();
        drop(c);
    }
}
#[kani::proof]
#[kani::unwind(6)]
fn q_ledger_owning_mixed() {
    let kind: u8 = kani::any();
    if kani::any() {
        let c = prebuilt_mixed_v(2);
        match kind {
            0 => { let mut it = c.into_iter(); let _ = consume(&mut it, 2); }
            1 => { let mut it = c.into_keys(); let _ = consume(&mut it, 2); }
            _ => { let mut it = c.into_values(); let _ = consume(&mut it, 2); }
        }
        assert!(state(4) == 2 && state(5) == 2, "an owning iterator leaked values it had not yielded (keys need no destructor)");
    } else {
        let c = prebuilt_mixed_k(2);
        match kind {
            0 => { let mut it = c.into_iter(); let _ = consume(&mut it, 2); }
            1 => { let mut it = c.into_keys(); let _ = consume(&mut it, 2); }
            _ => { let mut it = c.into_values(); let _ = consume(&mut it, 2); }
        }
        assert!(state(0) == 2 && state(1) == 2, "an owning iterator leaked keys it had not yielded (values need no destructor)");
    }
}
