//! Engine K: Kani harnesses over the real lru-mem code (L1 pointer layer, iterators, Drop impls,
//! clone, retain, clear) with `hashbrown::raw::RawTable` replaced by the contract double
//! `verif_hooks::table`.  Every harness is BOUNDED (at most 3 entries, capacity at most 4, unwind 6)
//! and is reported as such; none of them counts as a proof.
#![allow(dead_code, unused_imports, static_mut_refs)]
use crate::entry::{Entry, EntryPtr, UnhingedEntry};
use crate::verif_hooks::table;
use crate::{HeapSize, LruCache};
use std::hash::{BuildHasher, BuildHasherDefault, Hash, Hasher};

mod common;
mod sub;
mod ops;
mod iters;
mod ledger;
mod frame;
mod hashes;
mod callbacks;
mod ms;
