//! Engine K: Kani harnesses over the real lru-mem code (L1 pointer layer, iterators, Drop impls,
//! clone, retain, clear) with `hashbrown::raw::RawTable` replaced by the contract double
//! `verif_hooks::table`.  Every harness is BOUNDED (at most 3 entries, capacity at most 4, unwind 6)
//! and is reported as such; none of them counts as a proof.
#![allow(dead_code, unused_imports, static_mut_refs)]
use crate::entry::{Entry, EntryPtr, UnhingedEntry};
use crate::verif_hooks::table;
use crate::{HeapSize, LruCache};
use std::hash::{BuildHasher, BuildHasherDefault, Hash, Hasher};

mod common;
// one cfg per harness file, so that a change in /repo that stops one group from compiling (e.g. a private
// helper renamed by a refactoring) does not take the other groups down with it
#[cfg(verif_g_sub)]
mod sub;
#[cfg(verif_g_ops)]
mod ops;
#[cfg(verif_g_iters)]
mod iters;
#[cfg(verif_g_ledger)]
mod ledger;
#[cfg(verif_g_frame)]
mod frame;
#[cfg(verif_g_hashes)]
mod hashes;
#[cfg(verif_g_callbacks)]
mod callbacks;
#[cfg(verif_g_ms)]
mod ms;
