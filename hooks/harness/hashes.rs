//! hash_count_*: hashing work per operation (C20), counted by a ghost counter in the key's Hash impl.
//! Bounded: n <= 3.  The hash-routing monitor of the table double is switched off here because its
//! check in `insert` calls the hasher once more than hashbrown would.
use super::common::*;
use super::*;

pub static mut HASHES: u32 = 0;
#[derive(Clone)]
pub struct CK(pub u8);
impl HeapSize for CK { fn heap_size(&self) -> usize { 0 } }
impl PartialEq for CK { fn eq(&self, o: &CK) -> bool { self.0 == o.0 } }
impl Eq for CK {}
impl Hash for CK { fn hash<H: Hasher>(&self, h: &mut H) { unsafe { HASHES += 1; } h.write_u8(self.0) } }

const EC: usize = std::mem::size_of::<Entry<CK, u8>>();
fn prebuilt_ck(n: u8, cap: usize, max: usize) -> LruCache<CK, u8, BH> {
    unsafe { table::MONITOR_HASH = false; }
    let mut c: LruCache<CK, u8, BH> = LruCache::with_capacity_and_hasher(max, cap, BH::default());
    let mut k = 0u8;
    while k < n {
        link_new(&mut c, UnhingedEntry::new(CK(k), k));
        k += 1;
    }
    unsafe { HASHES = 0; }
    c
}
fn count() -> u32 { unsafe { HASHES } }

// lookups, promotion, removal core: at most 2 hashes (+1 per departure)
#[kani::proof]
#[kani::unwind(6)]
fn q_hash_count_lookups() {
    let mut c = prebuilt_ck(3, 4, usize::MAX / 2);
    let k: u8 = kani::any();
    kani::assume(k < 4);
    let which: u8 = kani::any();
    let len0 = c.len();
    match which {
        0 => { let _ = c.peek(&CK(k)); }
        1 => { let _ = c.contains(&CK(k)); }
        2 => { c.touch(&CK(k)); }
        3 => { let _ = c.get(&CK(k)).is_some(); }
        4 => { let _ = c.get_entry(&CK(k)).is_some(); }
        5 => { let _ = c.peek_entry(&CK(k)).is_some(); }
        6 => { let _ = c.remove_entry(&CK(k)); }
        _ => { let _ = c.remove(&CK(k)); }
    }
    let departed = (len0 - c.len()) as u32;
    // the property's bound: two key hashes plus one per entry that leaves during the operation
    assert!(count() <= 2 + departed, "a lookup / promotion / removal hashed more than two keys plus one per departing entry");
}

// traversals, clear, drain and the LRU/MRU peeks hash nothing (stated by the property)
#[kani::proof]
#[kani::unwind(6)]
fn q_hash_count_zero() {
    let mut c = prebuilt_ck(2, 4, usize::MAX / 2);
    let which: u8 = kani::any();
    match which {
        0 => { let _ = c.peek_lru(); let _ = c.peek_mru(); }
        1 => { let mut it = c.iter(); let _ = it.next(); let _ = it.next_back(); let _ = it.next(); }
        2 => { let mut it = c.keys(); let _ = it.next(); let mut v = c.values(); let _ = v.next_back(); }
        3 => { c.clear(); }
        _ => { let mut d = c.drain(); let _ = d.next(); }
    }
    assert!(count() == 0, "a traversal, clear, drain or LRU/MRU peek computed a hash");
}
// everything else that neither rebuilds nor evicts: at most two key hashes
#[kani::proof]
#[kani::unwind(6)]
fn q_hash_count_scalars() {
    let mut c = prebuilt_ck(2, 4, usize::MAX / 2);
    if kani::any() { let _ = c.len(); let _ = c.is_empty(); let _ = c.capacity(); let _ = c.current_size(); let _ = c.max_size(); }
    else { let _ = c.get_lru().is_some(); }
    assert!(count() <= 2);
}

// remove_lru / remove_mru / eviction step: one hash per departing entry
#[kani::proof]
#[kani::unwind(6)]
fn q_hash_count_remove_ends() {
    let mut c = prebuilt_ck(2, 4, usize::MAX / 2);
    if kani::any() { let _ = c.remove_lru(); } else { let _ = c.remove_mru(); }
    assert!(c.len() == 1);
    assert!(count() <= 2 + 1, "removing one end entry hashed more than two keys plus one for the departing entry");
}

// eviction of several entries by one operation: one hash per departing entry (plus at most two)
#[kani::proof]
#[kani::unwind(6)]
fn q_hash_count_evict_many() {
    let mut c = prebuilt_ck(3, 4, usize::MAX / 2);
    let keep: usize = kani::any();
    kani::assume(keep <= 3);
    c.set_max_size(keep * EC);
    let departed = (3 - c.len()) as u32;
    assert!(c.len() == keep);
    assert!(count() <= 2 + departed, "an operation evicting several entries hashed more than two keys plus one per departing entry");
}

// table rebuilds: each held entry hashed once
#[kani::proof]
#[kani::unwind(6)]
fn q_hash_count_rebuild() {
    let n: u8 = kani::any();
    kani::assume(n <= 3);
    let mut c = prebuilt_ck(n, 4, usize::MAX / 2);
    if kani::any() { let _ = c.try_reallocate(4); } else { let d = c.clone(); std::mem::forget(d); }
    assert!(count() <= 2 + n as u32, "a table rebuild hashed more than two keys plus each held entry once");
}

// retain: one hash per removed entry, none for kept ones
#[kani::proof]
#[kani::unwind(6)]
fn q_hash_count_retain() {
    let mut c = prebuilt_ck(3, 4, usize::MAX / 2);
    let keep: [bool; 3] = kani::any();
    c.retain(|k, _| keep[k.0 as usize]);
    let removed = (3 - c.len()) as u32;
    assert!(count() <= 2 + removed, "retain hashed more than two keys plus one per removed entry");
}

// composites (thorough; may end undecided by timeout): insert / try_insert / mutate / set_max_size
#[kani::proof]
#[kani::unwind(6)]
fn t_hash_count_insert() {
    let n: u8 = kani::any();
    kani::assume(n <= 2);
    let mut c = prebuilt_ck(n, 2, 2 * EC);
    let len0 = c.len();
    let cap0 = c.capacity();
    let key: u8 = kani::any();
    kani::assume(key < 3);
    let _ = c.insert(CK(key), 9);
    let departed = (len0 + 1 - c.len()) as u32;
    let grew = c.capacity() != cap0;
    assert!(count() <= 2 + departed + if grew { len0 as u32 } else { 0 });
}
#[kani::proof]
#[kani::unwind(6)]
fn t_hash_count_try_insert() {
    let n: u8 = kani::any();
    kani::assume(n <= 2);
    let mut c = prebuilt_ck(n, 2, 3 * EC);
    let len0 = c.len();
    let cap0 = c.capacity();
    let key: u8 = kani::any();
    kani::assume(key < 3);
    let _ = c.try_insert(CK(key), 9);
    let grew = c.capacity() != cap0;
    assert!(count() <= 2 + if grew { len0 as u32 } else { 0 });
}
#[kani::proof]
#[kani::unwind(6)]
fn t_hash_count_set_max_size() {
    let mut c = prebuilt_ck(2, 2, 2 * EC);
    let m: usize = kani::any();
    c.set_max_size(m);
    let departed = (2 - c.len()) as u32;
    assert!(count() <= departed);
}
#[kani::proof]
#[kani::unwind(6)]
fn t_hash_count_mutate() {
    let mut c = prebuilt_ck(2, 2, 2 * EC);
    let key: u8 = kani::any();
    kani::assume(key < 3);
    let _ = c.mutate(&CK(key), |v| { *v = 1; });
    assert!(count() <= 2);
}
