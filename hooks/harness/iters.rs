//! iter_link: the real links of a cache satisfy the snapshot predicates engine V assumes for the
//! iterator cursors; it_*: every next/next_back word over the iterator wrappers; drain_*: cache state
//! after a drain is dropped.
use super::common::*;
use super::*;

// ---- iter_link: `linked()` of verus/iter.vt, rendered executable ---------------------------------
fn body_iter_link(c: LruCache<u8, SV, BH>) {
    let n = c.len();
    let mut o: [EntryPtr<u8, SV>; N] = [c.seal; N];
    let mut cnt = 0usize;
    let mut p = c.seal.get().prev;
    while p != c.seal { assert!(cnt < N); o[cnt] = p; cnt += 1; p = p.get().prev; }
    assert!(cnt == n, "is_empty()/len() disagree with the number of linked nodes");
    assert!(c.is_empty() == (cnt == 0));
    assert!(!c.seal.is_null());
    let mut i = 0;
    while i < cnt {
        assert!(!o[i].is_null());
        assert!(o[i] != c.seal);
        let mut j = i + 1;
        while j < cnt { assert!(o[i] != o[j]); j += 1; }
        if i + 1 < cnt { assert!(o[i].get().prev == o[i + 1]); }
        if i > 0 { assert!(o[i].get().next == o[i - 1]); }
        i += 1;
    }
    if cnt > 0 {
        assert!(c.seal.get().prev == o[0] && c.seal.get().next == o[cnt - 1]);
    }
}
#[kani::proof]
#[kani::unwind(6)]
fn q_iter_link() { body_iter_link(state_q3()); }
#[kani::proof]
#[kani::unwind(6)]
fn t_iter_link() {
    let mut c = state_t(3);
    if c.len() > 0 && kani::any() { let _ = c.try_reallocate(4); }
    body_iter_link(c);
}

// ---- borrowing iterators: any word of next/next_back yields the order from the front and its reverse
//      from the back, each entry once, then None for ever (fused); the cache is unchanged ------------
fn body_it_borrowing(c: LruCache<u8, SV, BH>, kind: u8, steps: usize) {
    let o = order(&c);
    let fp = fingerprint(&c);
    let mut it = c.iter();
    let mut ks = c.keys();
    let mut vs = c.values();
    let mut lo = 0usize;
    let mut hi = o.1;
    let mut s = 0;
    while s < steps {
        let front: bool = kani::any();
        let got: Option<u8> = match kind {
            0 => { let r = if front { it.next() } else { it.next_back() }; r.map(|(k, v)| { assert!(v.0 == 8 + *k as usize); *k }) }
            1 => { let r = if front { ks.next() } else { ks.next_back() }; r.map(|k| *k) }
            _ => { let r = if front { vs.next() } else { vs.next_back() }; r.map(|v| (v.0 - 8) as u8) }
        };
        if lo < hi {
            if front { assert!(got == Some(o.0[lo])); lo += 1; } else { assert!(got == Some(o.0[hi - 1])); hi -= 1; }
        } else {
            assert!(got.is_none(), "iterator yielded after exhaustion / more than len() items");
        }
        s += 1;
    }
    assert!(fingerprint(&c) == fp, "borrowing iterator wrote to the cache");
}
#[kani::proof]
#[kani::unwind(7)]
fn q_it_iter() { body_it_borrowing(state_q3(), 0, 5); }
#[kani::proof]
#[kani::unwind(7)]
fn q_it_keys_values() { let kind: u8 = kani::any(); kani::assume(kind == 1 || kind == 2); body_it_borrowing(prebuilt(2, 4), kind, 4); }
#[kani::proof]
#[kani::unwind(7)]
fn q_it_empty_single() { let n: u8 = kani::any(); kani::assume(n <= 1); body_it_borrowing(prebuilt(n, 4), 0, 3); }
#[kani::proof]
#[kani::unwind(7)]
fn t_it_borrowing() { let kind: u8 = kani::any(); kani::assume(kind < 3); body_it_borrowing(state_t(3), kind, 5); }

// ---- drain: yields in order from both ends; after the drain is dropped the cache is empty, size 0,
//      coherent and usable, however much was consumed -----------------------------------------------
fn body_drain(mut c: LruCache<u8, SV, BH>, steps: usize) {
    let o = order(&c);
    {
        let mut d = c.drain();
        let mut lo = 0usize;
        let mut hi = o.1;
        let mut s = 0;
        while s < steps {
            if kani::any() {
                let front: bool = kani::any();
                let got = if front { d.next() } else { d.next_back() };
                if lo < hi {
                    let (k, v) = got.unwrap();
                    assert!(v.0 == 8 + k as usize);
                    if front { assert!(k == o.0[lo]); lo += 1; } else { assert!(k == o.0[hi - 1]); hi -= 1; }
                } else {
                    assert!(got.is_none());
                }
            }
            s += 1;
        }
    }
    coherent(&c);
    assert!(c.len() == 0 && c.current_size() == 0 && c.is_empty());
    assert!(c.lru_ptr().is_none());
    link_new(&mut c, UnhingedEntry::new(5u8, SV(2)));
    coherent(&c);
    assert!(c.len() == 1);
}
#[kani::proof]
#[kani::unwind(7)]
fn q_drain() { body_drain(prebuilt(2, 4), 3); }
// the empty and the singleton cache (both cursors equal in two different ways; seed C12-h)
#[kani::proof]
#[kani::unwind(6)]
fn q_drain_small() { let n: u8 = kani::any(); kani::assume(n <= 1); body_drain(prebuilt(n, 4), 2); }
#[kani::proof]
#[kani::unwind(7)]
fn t_drain() { body_drain(state_t(3), 5); }

// ---- owning iterators: into_iter / into_keys / into_values words ------------------------------------
fn body_it_owning(c: LruCache<u8, SV, BH>, kind: u8, steps: usize) {
    let o = order(&c);
    let mut lo = 0usize;
    let mut hi = o.1;
    let mut s = 0;
    match kind {
        0 => {
            let mut it = c.into_iter();
            while s < steps {
                let front: bool = kani::any();
                let got = if front { it.next() } else { it.next_back() };
                if lo < hi { let (k, v) = got.unwrap(); assert!(v.0 == 8 + k as usize);
                    if front { assert!(k == o.0[lo]); lo += 1; } else { assert!(k == o.0[hi - 1]); hi -= 1; } }
                else { assert!(got.is_none()); }
                s += 1;
            }
        }
        1 => {
            let mut it = c.into_keys();
            while s < steps {
                let front: bool = kani::any();
                let got = if front { it.next() } else { it.next_back() };
                if lo < hi { let k = got.unwrap();
                    if front { assert!(k == o.0[lo]); lo += 1; } else { assert!(k == o.0[hi - 1]); hi -= 1; } }
                else { assert!(got.is_none()); }
                s += 1;
            }
        }
        _ => {
            let mut it = c.into_values();
            while s < steps {
                let front: bool = kani::any();
                let got = if front { it.next() } else { it.next_back() };
                if lo < hi { let v = got.unwrap();
                    if front { assert!(v.0 == 8 + o.0[lo] as usize); lo += 1; } else { assert!(v.0 == 8 + o.0[hi - 1] as usize); hi -= 1; } }
                else { assert!(got.is_none()); }
                s += 1;
            }
        }
    }
}
#[kani::proof]
#[kani::unwind(7)]
fn q_it_into_iter() { body_it_owning(prebuilt(2, 4), 0, 3); }
#[kani::proof]
#[kani::unwind(7)]
fn q_it_into_keys_values() { let kind: u8 = kani::any(); kani::assume(kind == 1 || kind == 2); body_it_owning(prebuilt(2, 4), kind, 3); }
#[kani::proof]
#[kani::unwind(7)]
fn t_it_owning() { let kind: u8 = kani::any(); kani::assume(kind < 3); body_it_owning(state_t(3), kind, 5); }
