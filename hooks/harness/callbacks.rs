//! cb_*: panic safety as a call-back-point invariant (C16).  Kani has no unwinding; instead, every
//! call-back into user code (Hash, Eq, Clone, HeapSize of the key; the retain predicate) checks that
//! the cache being operated on, restricted to what an unwind from this point would not destroy,
//! satisfies `psafe`: the list is a closed cycle of exactly len() nodes, every node lives in a full
//! bucket of *self.table* (not of a local table that unwinding frees), and current_size is the sum of
//! the recorded sizes of those nodes.  If that holds at each call-back point, the state left behind by
//! a panic there satisfies the precondition of every later operation and of Drop.
use super::common::*;
use super::*;

static mut CB_CACHE: *const LruCache<HK, HV, BH> = std::ptr::null();
static mut CB_BUSY: bool = false;
static mut CB_CALLS: u32 = 0;

fn callback() {
    unsafe {
        if CB_CACHE.is_null() || CB_BUSY { return; }
        CB_BUSY = true;
        CB_CALLS += 1;
        psafe(&*CB_CACHE);
        CB_BUSY = false;
    }
}

pub struct HK(pub u8);
impl HeapSize for HK { fn heap_size(&self) -> usize { callback(); 0 } }
impl PartialEq for HK { fn eq(&self, o: &HK) -> bool { callback(); self.0 == o.0 } }
impl Eq for HK {}
impl Hash for HK { fn hash<H: Hasher>(&self, h: &mut H) { callback(); h.write_u8(self.0) } }
impl Clone for HK { fn clone(&self) -> HK { callback(); HK(self.0) } }
pub struct HV(pub u8);
impl HeapSize for HV { fn heap_size(&self) -> usize { callback(); self.0 as usize } }
impl Clone for HV { fn clone(&self) -> HV { callback(); HV(self.0) } }

/// the panic-safe invariant; uses only `owns` (no Hash/Eq call-backs)
fn psafe(c: &LruCache<HK, HV, BH>) {
    let n = c.table.len();
    let mut p = c.seal.get().prev;
    let mut before = c.seal;
    let mut cnt = 0usize;
    let mut sum = 0usize;
    while p != c.seal {
        assert!(cnt < N, "list does not close at a call-back point");
        assert!(c.table.owns(p.get() as *const Entry<HK, HV>), "list node outside self.table at a call-back point");
        assert!(p.get().next == before, "links do not mirror at a call-back point");
        sum += p.get().size;
        cnt += 1;
        before = p;
        p = p.get().prev;
    }
    assert!(c.seal.get().next == before, "links do not mirror at a call-back point");
    assert!(cnt == n, "len() differs from the number of linked nodes at a call-back point");
    assert!(sum == c.current_size, "current_size differs from the recorded sizes at a call-back point");
}

fn prebuilt_hk(n: u8, cap: usize) -> LruCache<HK, HV, BH> {
    // the double's hash-routing monitor would itself call the hasher inside `insert`: off here
    unsafe { table::MONITOR_HASH = false; }
    let mut c: LruCache<HK, HV, BH> = LruCache::with_capacity_and_hasher(usize::MAX / 2, cap, BH::default());
    let mut k = 0u8;
    while k < n {
        link_new(&mut c, UnhingedEntry::new(HK(k), HV(k)));
        k += 1;
    }
    c
}
fn arm(c: &LruCache<HK, HV, BH>) { unsafe { CB_CACHE = c as *const _; CB_CALLS = 0; } }
fn disarm() -> u32 { unsafe { CB_CACHE = std::ptr::null(); CB_CALLS } }

#[kani::proof]
#[kani::unwind(6)]
fn q_cb_try_reallocate() {
    let mut c = prebuilt_hk(2, 2);
    arm(&c);
    let _ = c.try_reallocate(3);
    let calls = disarm();
    kani::cover!(calls >= 2);   // vacuity guard: the call-backs are reached (a cover, not an obligation)
    psafe(&c);
}
#[kani::proof]
#[kani::unwind(6)]
fn q_cb_lookup_remove() {
    let mut c = prebuilt_hk(2, 4);
    let k: u8 = kani::any();
    kani::assume(k < 3);
    arm(&c);
    match kani::any::<u8>() {
        0 => { let _ = c.peek(&HK(k)).is_some(); }
        1 => { let _ = c.get(&HK(k)).is_some(); }
        2 => { c.touch(&HK(k)); }
        3 => { let _ = c.contains(&HK(k)); }
        _ => { let _ = c.remove_entry(&HK(k)); }
    }
    let calls = disarm();
    kani::cover!(calls >= 1);   // vacuity guard: the call-backs are reached (a cover, not an obligation)
    psafe(&c);
}
#[kani::proof]
#[kani::unwind(6)]
fn q_cb_remove_ends() {
    let mut c = prebuilt_hk(2, 4);
    arm(&c);
    if kani::any() { let _ = c.remove_lru(); } else { let _ = c.remove_mru(); }
    let calls = disarm();
    kani::cover!(calls >= 1);   // vacuity guard: the call-backs are reached (a cover, not an obligation)
    psafe(&c);
}
#[kani::proof]
#[kani::unwind(6)]
fn q_cb_clone() {
    let c = prebuilt_hk(2, 2);
    arm(&c);
    let d = c.clone();
    let calls = disarm();
    kani::cover!(calls >= 4);   // vacuity guard: the call-backs are reached (a cover, not an obligation)
    psafe(&c);
    psafe(&d);
}
#[kani::proof]
#[kani::unwind(6)]
fn q_cb_retain() {
    let mut c = prebuilt_hk(2, 4);
    let keep: [bool; 2] = kani::any();
    let max = c.max_size;
    arm(&c);
    let cp: *const LruCache<HK, HV, BH> = &c;
    let mut rejected = 0usize;
    c.retain(|k, _| {
        // the closure itself is a call-back point: psafe, the memory bound, and nothing lost except rejected entries
        unsafe {
            psafe(&*cp);
            assert!((*cp).current_size <= max);
            assert!((*cp).table.len() + rejected == 2, "an entry the predicate did not reject was lost");
        }
        let r = keep[k.0 as usize];
        if !r { rejected += 1; }
        r
    });
    let _ = disarm();
    psafe(&c);
}
#[kani::proof]
#[kani::unwind(6)]
fn q_cb_insert_untracked() {
    let mut c = prebuilt_hk(1, 4);
    let u = UnhingedEntry::new(HK(3), HV(3));
    let sz = u.size();
    let e = Entry::new(u, c.seal, c.seal.get().next);
    arm(&c);
    c.current_size += sz;
    c.current_size -= sz;
    // the hash for the insertion is computed before anything is touched
    let h = crate::make_insert_hash::<HK, BH>(&c.hash_builder, unsafe { e.key() });
    let r = c.insert_into_table_with_hash(h, e);
    let _ = disarm();
    if let Ok(p) = r { c.current_size += sz; c.set_head(p); }
    psafe(&c);
}

// ---- mutate: the closure and both size estimates are call-back points; at each of them nothing has been
//      modified yet (psafe, bound, no entry lost) --------------------------------------------------------------
#[kani::proof]
#[kani::unwind(6)]
fn q_cb_mutate() {
    let mut c = prebuilt_hk(2, 4);
    let k: u8 = kani::any();
    kani::assume(k < 3);
    let newv: u8 = kani::any();
    kani::assume(newv < 4);
    arm(&c);
    let cp: *const LruCache<HK, HV, BH> = &c;
    let r = c.mutate(&HK(k), |v| {
        unsafe {
            psafe(&*cp);
            assert!((*cp).current_size <= (*cp).max_size);
            assert!((*cp).table.len() == 2, "an entry was lost before the closure ran");
        }
        v.0 = newv;
    });
    let calls = disarm();
    kani::cover!(calls >= 1);   // vacuity guard: the call-backs are reached (a cover, not an obligation)
    assert!(r.is_ok());
    psafe(&c);
}
